"""C14, strengthening after the seeded misses: SOUNDNESS of resolvable-private-address resolution.

`rpa_generated_address_resolves` (contracts/c14_crypto.py) is the completeness half of the last sentence of the
statement (an address generated from an IRK resolves under it).  This file adds the half a resolver can be wrong
about without that lemma noticing: `AddressResolver.resolve` names a peer ONLY on the evidence the specification
asks for -- ah(IRK of that peer, prand of THIS address) == hash of THIS address (Core Vol 6 Part B 1.3.2.3) -- for
every list of resolving keys of any length, every address, and whatever the resolver was asked before (frame:
no state is written).  `e` (hence ah) stays the uninterpreted AES of the toolbox lemmas.
"""
import random
import re

from bumble import crypto, hci, smp
from contracts.c14_crypto import _E_TARGET
from pyvc import ext_c14
from pyvc.contracts import Bool, BytesN, Inst, Int, IntRange, Str, TupleOf, contract, exists, forall, implies, ite, lemma, model
from pyvc.ext_c14 import RecListOf, tagged_text, text_tag, text_value
from spec.crypto import ah_be, rev

ENVIRONMENT = [
    'the text round trip inside AddressResolver.resolve -- Address(str(identity), type) -- is string formatting and parsing '
    '(f-strings, bytes.fromhex), outside the value domain: Address.to_string and the string form of Address.__init__ enter '
    'as trusted contracts over an opaque "tagged text" (to_string remembers the six bytes and the /P qualifier, __init__ gives them back; '
    'a /P suffix makes the type PUBLIC_DEVICE whatever type was asked for); exercised by the concrete identities of '
    'rpa_generated_address_resolves / resolve_is_stateless and by a seeded native round-trip run (bounded)',
    'AddressResolver.resolving_keys is a list of (16-byte IRK, Address) pairs of any length that nothing mutates during resolve '
    '(RecListOf of pyvc/ext_c14.py: elements are functions of the index)',
]

ADDR = 'bumble.hci:Address#c14'
model(ADDR, fields=dict(address_bytes=BytesN(6), address_type=IntRange(0, 255)))
model('bumble.smp:AddressResolver', fields=dict(resolving_keys=RecListOf(TupleOf(BytesN(16), Inst(ADDR)))))


# --- native meaning of the tagged text 'bd_addr' (the format of Address.to_string / Address.__init__)
def _bd_addr_format(address_bytes, public):
    return ':'.join(f'{x:02X}' for x in reversed(bytes(address_bytes))) + ('/P' if public else '')


def _bd_addr_parse(s):
    m = re.fullmatch(r'((?:[0-9A-Fa-f]{2}:){5}[0-9A-Fa-f]{2})(/P)?', s)
    return (bytes.fromhex(m.group(1).replace(':', ''))[::-1], m.group(2) is not None) if m else None


ext_c14.TEXT_FORMATS['bd_addr'] = (_bd_addr_format, _bd_addr_parse)


def addr_is_public(a):
    return a.address_type == 0 or a.address_type == 2  # PUBLIC_DEVICE / PUBLIC_IDENTITY (Address.is_public)


contract(
    'bumble.hci:Address.to_string',
    key='bumble.hci:Address.to_string@text',
    params=dict(self=Inst(ADDR), with_type_qualifier=Bool),
    result=lambda self, with_type_qualifier: tagged_text('bd_addr', self.address_bytes, with_type_qualifier and addr_is_public(self)),
    modifies=[],
    trusted=True,
    note='text form of an address: XX:XX:XX:XX:XX:XX, most significant byte first, /P for a public address when the qualifier is asked for (string content not modelled)',
)
contract(
    'bumble.hci:Address.__init__',
    key='bumble.hci:Address.__init__@text',
    params=dict(self=Inst(ADDR), address=Str, address_type=Int),
    requires=lambda address: [text_tag(address) == 'bd_addr'],
    assigns={
        'self.address_bytes': lambda address: text_value(address, 0),
        'self.address_type': lambda address, address_type: ite(text_value(address, 1), 0, address_type),
    },
    modifies=['self.address_bytes', 'self.address_type'],
    trusted=True,
    note='Address(text, type) for a text made by to_string: the six bytes of that text; type PUBLIC_DEVICE (0) when the text ends in /P, else the requested type',
)


# --- the evidence the specification asks for
def rpa_matches(irk, address):
    """ah(irk, prand) == hash for the hash (three least significant bytes) and prand (three most significant bytes) of THIS address"""
    return rev(ah_be(rev(irk), rev(address.address_bytes[3:6]))) == address.address_bytes[0:3]


def names_entry(res, entry):
    """res is the identity address of this entry of the resolving list (bytes and public/random kind)"""
    return res.address_bytes == entry[1].address_bytes and addr_is_public(res) == addr_is_public(entry[1])


def resolve_post(self, address, res):
    keys = self.resolving_keys
    n = len(keys)
    if res is None:
        # None only when no entry of the list matches
        return [forall(0, n, lambda j: not rpa_matches(keys[j][0], address)), True]
    # a peer is named only when ITS key matches THIS address; it is the first such entry
    return [
        True,
        exists(0, n, lambda j: rpa_matches(keys[j][0], address) and names_entry(res, keys[j]) and forall(0, j, lambda k: not rpa_matches(keys[k][0], address))),
    ]


RESOLVE = dict(
    prop='C14',
    params=dict(self=Inst('bumble.smp:AddressResolver'), address=Inst(ADDR)),
    modifies=[],  # frame: nothing is written -- the answer cannot depend on earlier calls
    inline=['bumble.crypto:*', 'Address.__str__', 'Address.__bytes__'],
    uses=[_E_TARGET + '@spec', 'bumble.hci:Address.to_string@text', 'bumble.hci:Address.__init__@text'],
)
contract(
    'bumble.smp:AddressResolver.resolve',
    ensures=resolve_post,
    ensures_names=['none-only-if-no-key-matches', 'names-a-peer-only-if-its-key-matches-this-address'],
    invariants={0: lambda self, address, _i: [0 <= _i, _i <= len(self.resolving_keys), forall(0, _i, lambda k: not rpa_matches(self.resolving_keys[k][0], address))]},
    decreases={0: lambda self, _i: len(self.resolving_keys) - _i},
    note='soundness of address resolution for a list of resolving keys of ANY length and any address (resolvable or not); ah over the uninterpreted AES',
    **RESOLVE,
)


# ---------------------------------------------------------------------------
# the same statement on real objects built by the real constructors (concrete identity addresses, so the text
# round trip Address(str(identity)) is executed, not assumed), for a resolver that has ALREADY answered a query:
# the second answer is justified by the second address alone and is what a fresh resolver answers
# ---------------------------------------------------------------------------
PEER_A = hci.Address('C4:F2:17:1A:1D:BB', hci.Address.PUBLIC_DEVICE_ADDRESS)
PEER_B = hci.Address('F4:F2:17:1A:1D:BC', hci.Address.RANDOM_DEVICE_ADDRESS)


def lemma_resolve_stateless(irk_a, irk_b, genuine, prand, first_hash, second):
    keys = [(irk_a, PEER_A), (irk_b, PEER_B)]
    resolver = smp.AddressResolver(keys)
    # the first query: a resolvable private address peer A really generated (genuine), or any address at all
    a1 = hci.Address((crypto.ah(irk_a, prand) if genuine else first_hash) + prand, hci.Address.RANDOM_DEVICE_ADDRESS)
    a2 = hci.Address(second, hci.Address.RANDOM_DEVICE_ADDRESS)
    r1 = resolver.resolve(a1)
    assert implies(genuine, r1 is not None), 'genuine-address-resolves'
    r2 = resolver.resolve(a2)
    m_a, m_b = rpa_matches(irk_a, a2), rpa_matches(irk_b, a2)
    assert (r2 is None) == (not m_a and not m_b), 'second-answer-none-iff-no-key-matches'
    if r2 is not None:
        assert r2.address_bytes == (PEER_A.address_bytes if m_a else PEER_B.address_bytes), 'second-answer-names-the-first-matching-peer'
        assert r2.is_public == m_a, 'second-answer-kind'
    r3 = smp.AddressResolver(keys).resolve(a2)
    assert (r3 is None) == (r2 is None), 'same-as-fresh-resolver'


lemma(
    'resolve_is_stateless',
    lemma_resolve_stateless,
    prop='C14',
    params=dict(irk_a=BytesN(16), irk_b=BytesN(16), genuine=Bool, prand=BytesN(3), first_hash=BytesN(3), second=BytesN(6)),
    # (also keeps the native search around a counter-model inside the parameter types)
    requires=lambda irk_a, irk_b, prand, first_hash, second: [len(irk_a) == 16 and len(irk_b) == 16 and len(prand) == 3 and len(first_hash) == 3 and len(second) == 6],
    inline=['bumble.crypto:*', 'Address.*', 'AddressResolver.*'],
    uses=[_E_TARGET + '@spec'],
    note='bounded(two resolving keys, two queries): real constructors, concrete identity addresses, all IRKs and all pairs of addresses; '
    'the general statement (any number of keys) is the contract on AddressResolver.resolve',
)


# ---------------------------------------------------------------------------
# BOUNDED stand-in (never counted as proved) for the two trusted text contracts above: seeded native run of the
# real Address.to_string / Address.__init__ against the native meaning of the tagged text 'bd_addr'
# ---------------------------------------------------------------------------
def address_text_round_trip(top, out, tier, seed):
    n = 200 if tier == 'quick' else 20000
    rnd = random.Random(2000 + seed)
    bad = []
    types = [hci.Address.PUBLIC_DEVICE_ADDRESS, hci.Address.RANDOM_DEVICE_ADDRESS, hci.Address.PUBLIC_IDENTITY_ADDRESS, hci.Address.RANDOM_IDENTITY_ADDRESS]
    for i in range(n):
        b = bytes(rnd.randrange(256) for _ in range(6)) if i >= 4 else [bytes(6), b'\xff' * 6, bytes(range(6)), b'\x0a\x00\xa0\x0f\xf0\x00'][i]
        for t in types:
            a = hci.Address(b, t)
            for q in (True, False):
                text = a.to_string(q)
                if text != _bd_addr_format(b, q and addr_is_public(a)) or _bd_addr_parse(text) != (b, q and addr_is_public(a)):
                    bad.append(('to_string', b.hex(), int(t), q, text))
            for t2 in types:
                back = hci.Address(str(a), t2)
                if back.address_bytes != b or int(back.address_type) != (0 if addr_is_public(a) else int(t2)):
                    bad.append(('Address(str(a), t2)', b.hex(), int(t), int(t2), repr(back)))
    out['kind'] = 'bounded'
    out['paths'] = 0
    out['sha'] = ''
    out['bounded'] = [
        {
            'what': 'native run of Address.to_string / str / Address(text, type) against the trusted text contracts of contracts/c14_more.py '
            '(format XX:XX:XX:XX:XX:XX[/P]; Address(str(a), t) has the bytes of a, type PUBLIC_DEVICE for a public a, else t)',
            'bound': f'{n} seeded random 6-byte addresses x 4 address types x 4 requested types (seed {2000 + seed})',
            'disagreements': [repr(b_)[:300] for b_ in bad[:5]],
        }
    ]
    out['names']['C14/address_text_round_trip/bounded-agreement'] = {
        'kind': 'bounded', 'n': 1, 'proved': 0 if bad else 1, 'refuted': 1 if bad else 0, 'unknown': 0, 'vacuous': 0, 'disagree': 0,
        'time': 0.0, 'max_time': 0.0, 'backends': {'native-differential': 1}, 'abstracted': False, 'expect_sat': False, 'loc': 'address_text_round_trip',
        'details': [], 'witnesses': [{'loc': 'address_text_round_trip', 'decisions': [], 'info': {}, 'solver': 'native', 'detail': repr(bad[:3])[:600], 'replay': {'outcome': 'violated', 'confirms': True, 'failed': [repr(bad[:3])[:600]]}}] if bad else [],
    }
    return out


lemma('address_text_round_trip', lambda: None, prop='C14', params={}, custom=address_text_round_trip, note='BOUNDED stand-in: seeded native run of the address text round trip (see `bounded` in the evidence); never counted as proved')
