"""C19 (SDP part 2) -- a search pattern matches a record only if the record contains every UUID of the pattern.

  Server.match_services                 record returned IFF for EVERY UUID of the pattern SOME attribute contains it
                                        (pattern length and attributes per record unbounded; <= 2 records: bounded stand-in
                                        in that one dimension, the records are processed independently)
  Server.match_services@concrete        the same on fully concrete small shapes with the real is_uuid_in_value inlined
                                        (replayable: shows the defect natively)
  ServiceAttribute.is_uuid_in_value     against a leaf-enumeration oracle, nesting depth <= 2, <= 2 children (bounded stand-in)
"""
from bumble import sdp
from pyvc.ext_c19 import opaque_record
from pyvc.contracts import (NATIVE_UF, Any, Bool, Bytes, Callback, ConcList, Const, Inst, Int, IntRange, ListOf, OneOf, Opaque, Opt, TupleOf,
                            contract, exists, forall, iff, implies, lemma, model, at, ite, mhas, uf)

ENVIRONMENT = [
    'SDP matcher: ServiceAttribute / DataElement objects held in the record table and in the search pattern are read-only '
    'while match_services runs (their attributes are modelled as uninterpreted functions of the object identity)',
    'SDP matcher: ServiceAttribute.is_uuid_in_value is used as a pure function of (uuid, value) inside match_services; its own '
    'contract is a bounded stand-in (depth <= 2, width <= 2)',
    'SDP matcher: record handles are distinct dictionary keys',
]

UUID_EL = opaque_record('uuid_element', value=Opaque('uuid'))
ATTR = opaque_record('attribute', id=IntRange(0, 0xFFFF), value=Opaque('value'))

T_IN = 'bumble.sdp:ServiceAttribute.is_uuid_in_value'
NATIVE_UF['uuid_in'] = lambda uuid, value: 1 if sdp.ServiceAttribute.is_uuid_in_value(uuid, value) else 0
contract(
    T_IN,
    key=T_IN + '@pure',
    params=dict(uuid=Opaque('uuid'), value=Opaque('value')),
    returns=Bool,
    ensures=lambda uuid, value, res: [res == (uf('uuid_in', uuid, value) != 0)],
    modifies=[],
    trusted=True,
    note='is_uuid_in_value treated as a pure function of its arguments (it reads immutable DataElement trees)',
)


def contains(service, uuid_el):
    """some attribute of the record contains the UUID"""
    return exists(0, len(service), lambda a: uf('uuid_in', uuid_el.value, service[a].value) != 0)


def matches(service, pattern):
    """statement: the record contains EVERY UUID of the pattern"""
    return forall(0, len(pattern), lambda u: contains(service, pattern[u]))


model('bumble.sdp:DataElement#uuids', fields=dict(value=ListOf(UUID_EL)))
T_MATCH = 'bumble.sdp:Server.match_services'


def items_1(ghost):
    return [(ghost.h0, ghost.s0)]


def items_2(ghost):
    return [(ghost.h0, ghost.s0), (ghost.h1, ghost.s1)]


model('ghost:RecordTable1', fields={}, methods={'items': Callback('items', effect=items_1)})
model('ghost:RecordTable2', fields={}, methods={'items': Callback('items', effect=items_2)})
model('bumble.sdp:Server#match1', fields=dict(service_records=Inst('ghost:RecordTable1')))
model('bumble.sdp:Server#match2', fields=dict(service_records=Inst('ghost:RecordTable2')))


def in_result(res, h, service, pattern):
    """the record stored under h is in the result (under h, as the same list) iff it matches"""
    return [
        iff(mhas(res, h), matches(service, pattern)),
        implies(mhas(res, h), res.get(h) == service),
    ]


def match_inv_pattern(service, search_pattern, matched, _i):
    """every UUID of the pattern looked at so far was found in some attribute of the record"""
    return [0 <= _i, _i <= len(search_pattern.value), matched, forall(0, _i, lambda u: contains(service, search_pattern.value[u]))]


def match_inv_attrs(service, uuid, found, _i1):
    """no attribute looked at so far contains the UUID"""
    return [0 <= _i1, _i1 <= len(service), not found, forall(0, _i1, lambda a: uf('uuid_in', uuid.value, service[a].value) == 0)]


MATCH_COMMON = dict(
    prop='C19',
    invariants={1: match_inv_pattern, 2: match_inv_attrs},
    decreases={1: lambda search_pattern, _i: len(search_pattern.value) - _i, 2: lambda service, _i1: len(service) - _i1},
    modifies=[],
    uses=[T_IN + '@pure'],
)
contract(
    T_MATCH,
    key=T_MATCH + '@r1',
    params=dict(self=Inst('bumble.sdp:Server#match1'), search_pattern=Inst('bumble.sdp:DataElement#uuids')),
    ghost=dict(h0=IntRange(0, 0xFFFFFFFF), s0=ListOf(ATTR)),
    ensures=lambda search_pattern, res, ghost: in_result(res, ghost.h0, ghost.s0, search_pattern.value),
    ensures_names=['matched-iff-every-uuid-contained', 'record-returned-as-stored'],
    note='bounded in one dimension: 1 record in the table; pattern length and attributes per record unbounded',
    **MATCH_COMMON,
)
contract(
    T_MATCH,
    key=T_MATCH + '@r2',
    params=dict(self=Inst('bumble.sdp:Server#match2'), search_pattern=Inst('bumble.sdp:DataElement#uuids')),
    ghost=dict(h0=IntRange(0, 0xFFFFFFFF), s0=ListOf(ATTR), h1=IntRange(0, 0xFFFFFFFF), s1=ListOf(ATTR)),
    requires=lambda ghost: [ghost.h0 != ghost.h1],
    ensures=lambda search_pattern, res, ghost: in_result(res, ghost.h0, ghost.s0, search_pattern.value) + in_result(res, ghost.h1, ghost.s1, search_pattern.value),
    ensures_names=['first-matched-iff-every-uuid-contained', 'first-returned-as-stored', 'second-matched-iff-every-uuid-contained', 'second-returned-as-stored'],
    note='bounded in one dimension: 2 records in the table (they are processed independently); pattern length and attributes per record unbounded',
    **MATCH_COMMON,
)


# ---------------------------------------------------------------------------
# the same statement on a small fully concrete shape, real is_uuid_in_value executed in place (natively replayable)
# ---------------------------------------------------------------------------
model('bumble.sdp:DataElement#leaf', fields=dict(type=Const(sdp.DataElement.UUID), value=IntRange(0, 0xFFFF), value_size=Const(None)))
model('bumble.sdp:ServiceAttribute#c', fields=dict(id=IntRange(0, 0xFFFF), value=Inst('bumble.sdp:DataElement#leaf')))
model('bumble.sdp:DataElement#pattern2', fields=dict(type=Const(sdp.DataElement.SEQUENCE), value=ConcList(Inst('bumble.sdp:DataElement#leaf'), 2), value_size=Const(None)))
model('ghost:RecordTableC', fields={}, methods={'items': Callback('items', effect=items_1)})
model('bumble.sdp:Server#matchc', fields=dict(service_records=Inst('ghost:RecordTableC')))

contract(
    T_MATCH,
    key=T_MATCH + '@concrete',
    prop='C19',
    params=dict(self=Inst('bumble.sdp:Server#matchc'), search_pattern=Inst('bumble.sdp:DataElement#pattern2')),
    ghost=dict(h0=IntRange(0, 0xFFFFFFFF), s0=ConcList(Inst('bumble.sdp:ServiceAttribute#c'), 1)),
    ensures=lambda search_pattern, res, ghost: [
        # one record with one UUID attribute, pattern of two UUIDs (16-bit values): matched iff BOTH are that UUID
        iff(mhas(res, ghost.h0), search_pattern.value[0].value == ghost.s0[0].value.value and search_pattern.value[1].value == ghost.s0[0].value.value),
    ],
    ensures_names=['matched-iff-both-uuids-contained'],
    modifies=[],
    inline=['ServiceAttribute.is_uuid_in_value'],
    note='bounded: 1 record, 1 attribute, 2 pattern UUIDs -- replayable witness for the unbounded contracts @r1/@r2',
)


# ---------------------------------------------------------------------------
# ServiceAttribute.is_uuid_in_value against a leaf-enumeration oracle (bounded shapes)
# ---------------------------------------------------------------------------
UUID_T = int(sdp.DataElement.UUID)
SEQ_T = int(sdp.DataElement.SEQUENCE)
# any element type except SEQUENCE for a leaf (a leaf of type UUID holds a UUID, here a 16-bit number)
model('bumble.sdp:DataElement#anyleaf', fields=dict(type=IntRange(0, 8), value=IntRange(0, 0xFFFF), value_size=Const(None)))
LEAF = Inst('bumble.sdp:DataElement#anyleaf')
model('bumble.sdp:DataElement#seq1', fields=dict(type=Const(sdp.DataElement.SEQUENCE), value=ConcList(LEAF, 2), value_size=Const(None)))
model('bumble.sdp:DataElement#seq2', fields=dict(type=Const(sdp.DataElement.SEQUENCE), value=ConcList(Inst('bumble.sdp:DataElement#seq1'), 2), value_size=Const(None)))


def leaf_is(uuid, leaf):
    return leaf.type == UUID_T and leaf.value == uuid


def is_leaf(e):
    return e.type != SEQ_T


for _name, _t, _leaves, _oracle in (
    ('leaf', LEAF, lambda value: [is_leaf(value)], lambda uuid, value: leaf_is(uuid, value)),
    ('seq-of-2', Inst('bumble.sdp:DataElement#seq1'), lambda value: [is_leaf(value.value[0]), is_leaf(value.value[1])],
     lambda uuid, value: leaf_is(uuid, value.value[0]) or leaf_is(uuid, value.value[1])),
    (
        'seq-of-2-seq-of-2',
        Inst('bumble.sdp:DataElement#seq2'),
        lambda value: [is_leaf(value.value[0].value[0]), is_leaf(value.value[0].value[1]), is_leaf(value.value[1].value[0]), is_leaf(value.value[1].value[1])],
        lambda uuid, value: leaf_is(uuid, value.value[0].value[0]) or leaf_is(uuid, value.value[0].value[1]) or leaf_is(uuid, value.value[1].value[0]) or leaf_is(uuid, value.value[1].value[1]),
    ),
):
    contract(
        T_IN,
        key=f'{T_IN}@{_name}',
        prop='C19',
        params=dict(uuid=IntRange(0, 0xFFFF), value=_t),
        returns=Bool,
        requires=(lambda leaves: lambda value: leaves(value))(_leaves),
        # contained iff it is one of the UUID leaves of the element tree (sequences are searched recursively)
        ensures=(lambda oracle: lambda uuid, value, res: [res == oracle(uuid, value)])(_oracle),
        ensures_names=['true-iff-some-uuid-leaf-equals'],
        modifies=[],
        inline=['ServiceAttribute.is_uuid_in_value'],
        note=f'bounded: element shape {_name}',
    )


# ---------------------------------------------------------------------------
# Server.get_service_attributes: the attributes whose id is in one of the requested ids / ranges, ordered by id
# ---------------------------------------------------------------------------
model('bumble.sdp:DataElement#value', fields=dict(type=IntRange(0, 8), value=Opaque('payload'), value_size=Const(None)))
model('bumble.sdp:ServiceAttribute#g', fields=dict(id=IntRange(0, 0xFFFF), value=Inst('bumble.sdp:DataElement#value')))
# an attribute id (2 octets) or an attribute id range (4 octets: first id << 16 | last id), Vol 3 Part B 4.6.1
model('bumble.sdp:DataElement#id', fields=dict(type=Const(sdp.DataElement.UNSIGNED_INTEGER), value=IntRange(0, 0xFFFFFFFF), value_size=OneOf(2, 4)))
T_GSA = 'bumble.sdp:Server.get_service_attributes'
GA = Inst('bumble.sdp:ServiceAttribute#g')
IDE = Inst('bumble.sdp:DataElement#id')


def wanted(attribute, id_el):
    lo = id_el.value // 65536 if id_el.value_size == 4 else id_el.value
    hi = id_el.value % 65536 if id_el.value_size == 4 else id_el.value
    return lo <= attribute.id and attribute.id <= hi


def is_id_element(e, attribute):
    return e.type == int(sdp.DataElement.UNSIGNED_INTEGER) and e.value_size == 2 and e.value == attribute.id


def gsa_post_2x1(service, attribute_ids, res):
    """2 attributes, 1 id element: the result is the sequence [id, value]* of exactly the wanted attributes,
    ascending by id (equal ids keep the record's order)"""
    a, b = service[0], service[1]
    e = attribute_ids[0]
    wa, wb = wanted(a, e), wanted(b, e)
    out = res.value
    clauses = [res.type == SEQ_T, len(out) == 2 * ((1 if wa else 0) + (1 if wb else 0))]
    if len(out) == 4:
        clauses.append(
            (a.id <= b.id and is_id_element(out[0], a) and out[1] == a.value and is_id_element(out[2], b) and out[3] == b.value)
            or (a.id > b.id and is_id_element(out[0], b) and out[1] == b.value and is_id_element(out[2], a) and out[3] == a.value)
        )
    elif len(out) == 2:
        clauses.append((wa and is_id_element(out[0], a) and out[1] == a.value) or (wb and is_id_element(out[0], b) and out[1] == b.value))
    else:
        clauses.append(len(out) == 0)
    return clauses


contract(
    T_GSA,
    key=T_GSA + '@2x1',
    prop='C19',
    params=dict(service=ConcList(GA, 2), attribute_ids=ConcList(IDE, 1)),
    requires=lambda attribute_ids: [implies(attribute_ids[0].value_size == 2, attribute_ids[0].value <= 0xFFFF)],
    ensures=gsa_post_2x1,
    ensures_names=['sequence', 'two-elements-per-wanted-attribute', 'wanted-attributes-in-id-order'],
    modifies=[],
    inline=['DataElement.sequence', 'DataElement.unsigned_integer_16', 'DataElement.__post_init__'],
    note='bounded: 2 attributes in the record, 1 id / id-range element in the request',
)
