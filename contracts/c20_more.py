"""C20 (part 4) -- HFP audio gateway: which service-level-connection set-up steps are outstanding, and when the AG reports
the SLC as complete ("a Hands-Free service-level connection ... completes for every combination of hands-free and
audio-gateway feature sets").  Value profile, feature words symbolic (all 2^16 x 2^16 combinations at once).

  AgProtocol._on_brsf                    supported_hf_features stored as received; exactly one +BRSF line then one OK; the
                                         set of outstanding steps gains HF_INDICATORS iff BOTH sides support HF indicators,
                                         THREE_WAY_CALLING iff BOTH sides support three-way calling, nothing else; no
                                         slc_complete yet
  AgProtocol._check_remained_slc_commands  slc_complete is emitted exactly once iff no step is outstanding, else not at all
  AgProtocol._on_chld_test / _on_bind_read  the step's own entry is removed (and only that one) when the AG has the feature and
                                         answers OK; refused with ERROR and nothing removed when it has not; slc_complete
                                         exactly when the set became empty
  AgProtocol._on_cind_read               no step removed; slc_complete exactly when nothing is outstanding
  AgProtocol._on_cmer                    touches neither the outstanding set nor slc_complete (as the code has it)
  lemma ag_slc_completes_for_every_feature_combination
                                         the AG handlers driven in the order HfProtocol.initiate_slc issues the commands
                                         (BRSF, CIND?, CMER, CHLD=? iff both three-way, BIND? iff both HF-indicators): for
                                         every pair of feature words slc_complete is emitted exactly once and nothing
                                         is left outstanding
"""
import pyvc.ext_c20  # noqa: F401
from bumble import hfp
from pyvc.contracts import Any, Bool, Callback, ConcList, Const, Inst, Int, IntRange, OneOf, contract, iff, implies, lemma, model
from pyvc.ext_c20 import ConcDict, s_eq, s_startswith
from spec.pyset import FlagSet2

ENVIRONMENT = [
    'HFP AG SLC steps: the built-in set AgProtocol._remained_slc_setup_features is modelled by spec/pyset.py:FlagSet2 (one boolean '
    'per possible member HF_INDICATORS / THREE_WAY_CALLING, CPython semantics of add / discard / remove / truth value)',
    'HFP AG SLC steps: _on_brsf is given the number its parameter denotes (int() of it is the identity); the decimal decoding of '
    'the parameter bytes is the built-in int() (a second contract runs the real bytes for the 8 values that matter)',
    'HFP AG SLC lemma: the HF issues CHLD=? / BIND? exactly when both feature words have the bit (HfProtocol.initiate_slc, whose '
    'view of the AG features is the +BRSF value the AG sent: C20 part 3 initiate_slc contract); AT transport and the HF side are '
    'not part of the lemma',
]

HF_IND = int(hfp.HfFeature.HF_INDICATORS)
HF_TWC = int(hfp.HfFeature.THREE_WAY_CALLING)
AG_IND = int(hfp.AgFeature.HF_INDICATORS)
AG_TWC = int(hfp.AgFeature.THREE_WAY_CALLING)

FlagSet2.A = hfp.HfFeature.HF_INDICATORS
FlagSet2.B = hfp.HfFeature.THREE_WAY_CALLING


def _build_set(fields, builder):
    return {m for (m, f) in ((hfp.HfFeature.HF_INDICATORS, 'has_a'), (hfp.HfFeature.THREE_WAY_CALLING, 'has_b')) if fields[f]}


model('spec.pyset:FlagSet2', fields=dict(has_a=Bool, has_b=Bool), build=_build_set)


def slc_write(ghost, text):
    """the DLC as the SLC contracts see it: +BRSF lines, OK, ERROR / +CME ERROR, anything else -- counted in order"""
    if s_eq(text, '\r\nOK\r\n'):
        ghost.oks = ghost.oks + 1
        ghost.brsf_before_ok = ghost.brsf
    elif s_startswith(text, '\r\n+BRSF: '):
        ghost.brsf = ghost.brsf + 1
    elif s_eq(text, '\r\nERROR\r\n') or s_startswith(text, '\r\n+CME ERROR: '):
        ghost.errors = ghost.errors + 1
    else:
        ghost.other = ghost.other + 1


def slc_emit(ghost, event, *args):
    if event == hfp.AgProtocol.EVENT_SLC_COMPLETE:
        ghost.complete = ghost.complete + 1
    else:
        ghost.other_events = ghost.other_events + 1


model('ghost:AgDlc#slc', fields={}, methods={'write': Callback('write', effect=slc_write)})
model('bumble.hfp:HfIndicatorState#s', fields=dict(indicator=Any, supported=Bool, enabled=OneOf(True, False), current_status=Int))
model('bumble.hfp:AgIndicatorState#s', fields=dict(current_status=IntRange(0, 5)))
HFI = hfp.HfIndicator
model(
    'bumble.hfp:AgProtocol#slc',
    fields=dict(
        dlc=Inst('ghost:AgDlc#slc'),
        supported_ag_features=IntRange(0, 0xFFFF),
        supported_hf_features=IntRange(0, 0xFFFF),
        _remained_slc_setup_features=Inst('spec.pyset:FlagSet2'),
        cme_error_enabled=Bool,
        indicator_report_enabled=Bool,
        supported_ag_call_hold_operations=Const([]),
        ag_indicators=ConcList(Inst('bumble.hfp:AgIndicatorState#s'), 1),
        hf_indicators=ConcDict([HFI.ENHANCED_SAFETY], Inst('bumble.hfp:HfIndicatorState#s')),
    ),
    methods={'emit': Callback('emit', effect=slc_emit)},
)
AG = Inst('bumble.hfp:AgProtocol#slc')
SLC_GHOST = dict(brsf=Int, oks=Int, errors=Int, other=Int, brsf_before_ok=Int, complete=Int, other_events=Int)
SLC_MOD = ['self._remained_slc_setup_features.has_a', 'self._remained_slc_setup_features.has_b', 'ghost.brsf', 'ghost.oks', 'ghost.errors', 'ghost.other',
           'ghost.brsf_before_ok', 'ghost.complete']
SLC_INLINE = ['AgProtocol.send_*', 'AgProtocol.supports_*', 'AgProtocol._check_remained_slc_commands', 'FlagSet2.*']
IND = hfp.HfFeature.HF_INDICATORS
TWC = hfp.HfFeature.THREE_WAY_CALLING


def steps(self):
    return self._remained_slc_setup_features


def both(self, hf_bit, ag_bit):
    return self.supported_hf_features & hf_bit != 0 and self.supported_ag_features & ag_bit != 0


def lines(old, ghost, brsf, oks, errors, other):
    return ghost.brsf == old.ghost.brsf + brsf and ghost.oks == old.ghost.oks + oks and ghost.errors == old.ghost.errors + errors and ghost.other == old.ghost.other + other


def brsf_post(self, hf_features, old, ghost):
    return [
        self.supported_hf_features == hf_features,
        lines(old, ghost, 1, 1, 0, 0) and ghost.brsf_before_ok == ghost.brsf,
        # the step is outstanding afterwards iff it was before or BOTH sides support the feature
        iff(IND in steps(self), (IND in steps(old.self)) or both(self, HF_IND, AG_IND)),
        iff(TWC in steps(self), (TWC in steps(old.self)) or both(self, HF_TWC, AG_TWC)),
        ghost.complete == old.ghost.complete,
    ]


BRSF_NAMES = ['hf-features-stored-as-received', 'one-BRSF-line-then-one-OK', 'hf-indicators-step-iff-both-sides-support-it',
              'three-way-calling-step-iff-both-sides-support-it', 'not-complete-yet']

contract(
    'bumble.hfp:AgProtocol._on_brsf',
    key='bumble.hfp:AgProtocol._on_brsf@slc',
    prop='C20',
    params=dict(self=AG, hf_features=IntRange(0, 0xFFFFFFFF)),
    ghost=SLC_GHOST,
    ensures=brsf_post,
    ensures_names=BRSF_NAMES,
    modifies=SLC_MOD + ['self.supported_hf_features'],
    inline=SLC_INLINE,
    note='the parameter is the number it denotes (int(<int>) is the identity), all feature words at once',
)

_BRSF_BYTES = [str(v).encode() for v in (0, HF_TWC, HF_IND, HF_IND | HF_TWC, 1023 & ~(HF_IND | HF_TWC), 1023 & ~HF_IND, 1023 & ~HF_TWC, 1023)]
contract(
    'bumble.hfp:AgProtocol._on_brsf',
    key='bumble.hfp:AgProtocol._on_brsf@slc-bytes',
    prop='C20',
    params=dict(self=AG, hf_features=OneOf(*_BRSF_BYTES)),
    ghost=SLC_GHOST,
    ensures=lambda self, hf_features, old, ghost: brsf_post(self, int(hf_features), old, ghost),
    ensures_names=BRSF_NAMES,
    modifies=SLC_MOD + ['self.supported_hf_features'],
    inline=SLC_INLINE,
    note='bounded(8 parameter values: the four combinations of the two HF bits, alone and with every other bit of 1023)',
)

contract(
    'bumble.hfp:AgProtocol._check_remained_slc_commands',
    key='bumble.hfp:AgProtocol._check_remained_slc_commands@slc',
    prop='C20',
    params=dict(self=AG),
    ghost=SLC_GHOST,
    ensures=lambda self, old, ghost: [
        ghost.complete == old.ghost.complete + (1 if len(steps(old.self)) == 0 else 0),
        ghost.other_events == old.ghost.other_events,
    ],
    ensures_names=['slc-complete-exactly-when-nothing-outstanding', 'no-other-event'],
    modifies=['ghost.complete'],
    inline=['FlagSet2.*'],
)


def step_post(own, other, ag_bit, ok_other_lines):
    def post(self, old, ghost):
        has = self.supported_ag_features & ag_bit != 0
        return [
            # AG without the feature: refused, nothing removed, nothing reported
            implies(not has, lines(old, ghost, 0, 0, 1, 0) and iff(own in steps(self), own in steps(old.self)) and ghost.complete == old.ghost.complete),
            implies(has, lines(old, ghost, 0, 1, 0, ok_other_lines)),
            implies(has, own not in steps(self)),
            iff(other in steps(self), other in steps(old.self)),
            implies(has, ghost.complete == old.ghost.complete + (1 if other not in steps(old.self) else 0)),
        ]

    return post


STEP_NAMES = ['without-the-feature-ERROR-and-nothing-removed', 'answered-OK', 'own-step-removed', 'other-step-kept', 'slc-complete-exactly-when-set-became-empty']

contract(
    'bumble.hfp:AgProtocol._on_chld_test',
    key='bumble.hfp:AgProtocol._on_chld_test@slc',
    prop='C20',
    params=dict(self=AG),
    ghost=SLC_GHOST,
    ensures=step_post(TWC, IND, AG_TWC, 1),
    ensures_names=STEP_NAMES,
    modifies=SLC_MOD,
    inline=SLC_INLINE,
    note='no call-hold operations configured (the +CHLD line is "()")',
)

contract(
    'bumble.hfp:AgProtocol._on_bind_read',
    key='bumble.hfp:AgProtocol._on_bind_read@slc',
    prop='C20',
    params=dict(self=AG),
    ghost=SLC_GHOST,
    ensures=step_post(IND, TWC, AG_IND, 1),
    ensures_names=STEP_NAMES,
    modifies=SLC_MOD,
    inline=SLC_INLINE,
    note='one HF indicator configured (one +BIND line)',
)

contract(
    'bumble.hfp:AgProtocol._on_cind_read',
    key='bumble.hfp:AgProtocol._on_cind_read@slc',
    prop='C20',
    params=dict(self=AG),
    ghost=SLC_GHOST,
    ensures=lambda self, old, ghost: [
        lines(old, ghost, 0, 1, 0, 1),
        iff(IND in steps(self), IND in steps(old.self)) and iff(TWC in steps(self), TWC in steps(old.self)),
        ghost.complete == old.ghost.complete + (1 if len(steps(old.self)) == 0 else 0),
    ],
    ensures_names=['one-CIND-line-then-OK', 'no-step-removed', 'slc-complete-exactly-when-nothing-outstanding'],
    modifies=SLC_MOD,
    inline=SLC_INLINE,
    note='one AG indicator configured',
)

contract(
    'bumble.hfp:AgProtocol._on_cmer',
    key='bumble.hfp:AgProtocol._on_cmer@slc',
    prop='C20',
    params=dict(self=AG, mode=OneOf(b'3', b'0'), keypad=OneOf(None, b'', b'0', b'1'), display=OneOf(None, b'', b'0'), indicator=OneOf(b'', b'0', b'1', b'2')),
    ghost=SLC_GHOST,
    ensures=lambda self, old, ghost: [
        ghost.oks + ghost.errors == old.ghost.oks + old.ghost.errors + 1 and ghost.brsf == old.ghost.brsf and ghost.other == old.ghost.other,
        iff(IND in steps(self), IND in steps(old.self)) and iff(TWC in steps(self), TWC in steps(old.self)),
        ghost.complete == old.ghost.complete,
    ],
    ensures_names=['one-final-result-code', 'no-step-removed', 'slc-complete-not-reported-here'],
    modifies=SLC_MOD + ['self.indicator_report_enabled'],
    inline=SLC_INLINE,
    note='bounded(parameter values enumerated)',
)


# ---------------------------------------------------------------------------
# the AG side of an SLC set-up, for every pair of feature words
# ---------------------------------------------------------------------------
def lemma_ag_slc(ag, hf_features):
    """the AG handlers in the order HfProtocol.initiate_slc issues the commands that bear on completion; the HF issues
    AT+CHLD=? / AT+BIND? exactly when both feature words have the bit (initiate_slc tests its own word and the word the
    AG sent in +BRSF)"""
    ag._on_brsf(hf_features)
    ag._on_cind_read()
    ag._on_cmer(b'3', b'', b'', b'1')
    if hf_features & HF_TWC != 0 and ag.supported_ag_features & AG_TWC != 0:
        ag._on_chld_test()
    if hf_features & HF_IND != 0 and ag.supported_ag_features & AG_IND != 0:
        ag._on_bind_read()


lemma(
    'ag_slc_completes_for_every_feature_combination',
    lemma_ag_slc,
    prop='C20',
    params=dict(ag=AG, hf_features=IntRange(0, 0xFFFFFFFF)),
    ghost=SLC_GHOST,
    requires=lambda ag: len(ag._remained_slc_setup_features) == 0,  # as AgProtocol.__init__ leaves it
    ensures=lambda ag, old, ghost: [
        ghost.complete == old.ghost.complete + 1,
        len(ag._remained_slc_setup_features) == 0,
        ghost.errors == old.ghost.errors,
    ],
    ensures_names=['slc-complete-emitted-exactly-once', 'nothing-left-outstanding', 'no-step-refused'],
    modifies=['ag._remained_slc_setup_features.has_a', 'ag._remained_slc_setup_features.has_b', 'ag.supported_hf_features', 'ag.indicator_report_enabled',
              'ghost.brsf', 'ghost.oks', 'ghost.errors', 'ghost.other', 'ghost.brsf_before_ok', 'ghost.complete'],
    inline=SLC_INLINE + ['AgProtocol._on_brsf', 'AgProtocol._on_cind_read', 'AgProtocol._on_cmer', 'AgProtocol._on_chld_test', 'AgProtocol._on_bind_read'],
)
