"""C19 (SDP part 1) -- SDP answers are reassembled exactly across continuation responses.

  Server.check_continuation / get_next_response_payload            chunking primitives
  Server.on_sdp_service_attribute_request                          ServiceAttribute transaction
  Server.on_sdp_service_search_attribute_request                   ServiceSearchAttribute transaction
  Server.on_sdp_service_search_request                             ServiceSearch transaction (handle list variant)
  Server.send_response / on_connection                             one response, to the channel of the server
  Client.get_attributes / search_attributes / search_services      the real accumulation loops; their send_request is
                                                                   served by the server handlers through the contracts
                                                                   above (ghost driver, peer MTU symbolic)
  lemma sdp_two_clients_*                                          per-client channel / continuation state (expected to fail)
"""
from bumble import sdp
from pyvc.ext_c19 import opaque_record
from pyvc.contracts import (Any, Bool, Bytes, Callback, Const, Inst, Int, IntRange, ListOf, OneOf, Opaque, Opt, TupleOf, contract,
                            forall, iff, implies, lemma, model, at, ite)

ENVIRONMENT = [
    'SDP: the byte-level PDU codec (SDP_PDU.from_bytes/__bytes__, DataElement parser/serialiser) is C18: a response object '
    'built by the server handler reaches the client as an object of the same class with the same field values',
    'SDP: bytes(DataElement) (the serialised attribute list) is an environment stub that yields an arbitrary byte string, '
    'recorded as the full response; what that list contains is the business of get_service_attributes / match_services '
    '(c19_sdp_match.py)',
    'SDP: dispatch Server.on_pdu -> handler (parse + getattr on an f-string name) is environment here (C17 covers its error paths)',
    'SDP: within one transaction the client is the only one talking to the server (A1; the multi-client case is the '
    'sdp_two_clients lemmas) and the record table does not change between continuation requests',
    'SDP: L2CAP peer MTU >= 48 (minimum MTU, Core Vol 3 Part A 5.1) and MaximumAttributeByteCount >= 7 (Vol 3 Part B 4.6.1)',
]

CONT = bytes([0x01, 0x00])  # Server.CONTINUATION_STATE: InfoLength 1, one octet of state
NO_CONT = bytes([0])
ERR_INVALID_HANDLE = 2
ERR_INVALID_CONTINUATION = 5
K_NONE, K_ERROR, K_SEARCH, K_ATTR, K_SEARCH_ATTR = 0, 1, 2, 3, 4


# ---------------------------------------------------------------------------
# the response sink
# ---------------------------------------------------------------------------
def srv_send(ghost, response):
    """recording stub for Server.send_response: which response object was handed over"""
    ghost.nresp = ghost.nresp + 1
    ghost.r_tid = response.transaction_id
    if isinstance(response, sdp.SDP_ErrorResponse):
        ghost.r_kind = K_ERROR
        ghost.r_err = response.error_code
    elif isinstance(response, sdp.SDP_ServiceAttributeResponse):
        ghost.r_kind = K_ATTR
        ghost.r_payload = response.attribute_list
        ghost.r_cont = response.continuation_state
    elif isinstance(response, sdp.SDP_ServiceSearchAttributeResponse):
        ghost.r_kind = K_SEARCH_ATTR
        ghost.r_payload = response.attribute_lists
        ghost.r_cont = response.continuation_state
    elif isinstance(response, sdp.SDP_ServiceSearchResponse):
        ghost.r_kind = K_SEARCH
        ghost.r_total = response.total_service_record_count
        ghost.r_handles = response.service_record_handle_list
        ghost.r_cont = response.continuation_state
    else:
        assert False


SEND = Callback('send_response', effect=srv_send)
RESP_GHOST = dict(nresp=Int, r_tid=Int, r_kind=Int, r_err=Int, r_payload=Bytes, r_cont=Bytes, r_total=Int, r_handles=ListOf(Int))
RESP_MOD = ['ghost.nresp', 'ghost.r_tid', 'ghost.r_kind', 'ghost.r_err', 'ghost.r_payload', 'ghost.r_cont', 'ghost.r_total', 'ghost.r_handles']


def error_sent(old, ghost, tid, code):
    return ghost.nresp == old.ghost.nresp + 1 and ghost.r_kind == K_ERROR and ghost.r_tid == tid and ghost.r_err == code


def nothing_sent(old, ghost):
    return ghost.nresp == old.ghost.nresp


# ---------------------------------------------------------------------------
# chunking primitives (byte-string responses)
# ---------------------------------------------------------------------------
model('ghost:SdpChannel', fields=dict(peer_mtu=IntRange(48, 0xFFFF), cid=Int))
CHANNEL = Inst('ghost:SdpChannel')


def table_get(ghost, handle):
    """the record table: ghost.svc is what it holds under ghost.handle (None: no such record)"""
    assert handle == ghost.handle
    return ghost.svc


model('ghost:SdpRecords', fields={}, methods={'get': Callback('get', effect=table_get)})
model(
    'bumble.sdp:Server#b',
    fields=dict(current_response=Opt(Bytes), channel=Opt(CHANNEL), service_records=Inst('ghost:SdpRecords')),
    methods={'send_response': SEND},
)
SERVER_B = Inst('bumble.sdp:Server#b')

T_CHECK = 'bumble.sdp:Server.check_continuation'
T_NEXT = 'bumble.sdp:Server.get_next_response_payload'


def pending(server):
    """the unsent remainder of the current response (empty when there is none)"""
    return b'' if server.current_response is None else server.current_response


def is_continuation(cs):
    """a request carries a continuation state iff InfoLength > 0, i.e. the field is longer than its length octet"""
    return len(cs) > 1


contract(
    T_CHECK,
    prop='C19',
    params=dict(self=SERVER_B, continuation_state=Bytes, transaction_id=IntRange(0, 0xFFFF)),
    ghost=RESP_GHOST,
    returns=OneOf(True, False, None),
    ensures=lambda self, continuation_state, transaction_id, res, old, ghost: [
        # a continuation is accepted only if a response is pending and the state is the one the server handed out
        iff(res is True, is_continuation(continuation_state) and old.self.current_response is not None and continuation_state == CONT),
        iff(res is False, not is_continuation(continuation_state)),
        iff(res is None, is_continuation(continuation_state) and (old.self.current_response is None or continuation_state != CONT)),
        implies(res is None, error_sent(old, ghost, transaction_id, ERR_INVALID_CONTINUATION)),
        implies(res is not None, nothing_sent(old, ghost)),
        # a fresh request drops whatever was left over; otherwise the pending response is untouched
        implies(res is False, self.current_response is None),
        implies(res is not False, (self.current_response is None) == (old.self.current_response is None) and self.current_response == old.self.current_response),
    ],
    ensures_names=['continuation-accepted', 'fresh-request', 'continuation-rejected', 'rejected-error-sent', 'nothing-sent-otherwise',
                   'fresh-drops-leftover', 'pending-untouched'],
    modifies=['self.current_response'] + RESP_MOD,
    inline=['SDP_PDU.__init__'],
)

contract(
    T_NEXT,
    prop='C19',
    params=dict(self=SERVER_B, maximum_size=IntRange(1, 0xFFFF)),
    returns=TupleOf(Bytes, Bytes),
    requires=lambda self: self.current_response is not None,
    ensures=lambda self, maximum_size, res, old: [
        len(res[0]) <= maximum_size,
        # sent part ++ what is kept == what was pending
        res[0] + pending(self) == old.self.current_response,
        # a continuation state is returned iff something is kept, and then progress was made
        iff(self.current_response is not None, res[1] == CONT),
        iff(self.current_response is None, res[1] == NO_CONT),
        implies(self.current_response is not None, len(res[0]) == maximum_size and len(pending(self)) >= 1),
    ],
    ensures_names=['within-limit', 'sent-plus-kept-is-pending', 'continuation-iff-kept', 'final-iff-nothing-kept', 'progress'],
    modifies=['self.current_response'],
)


# ---------------------------------------------------------------------------
# environment stubs: what the full response is made of
# ---------------------------------------------------------------------------
model('bumble.sdp:DataElement#ids', fields=dict(value=Opaque('ids')))
model('bumble.sdp:DataElement#pattern', fields=dict(value=Opaque('pattern')))
model('bumble.sdp:DataElement#alist', fields=dict(value=ListOf(Opaque('de'))))

T_GSA = 'bumble.sdp:Server.get_service_attributes'
T_DE_BYTES = 'bumble.sdp:DataElement.__bytes__'
contract(
    T_GSA,
    key=T_GSA + '@env',
    params=dict(service=Opaque('svc'), attribute_ids=Opaque('ids')),
    ghost=dict(ids=Opaque('ids')),
    # the handler must ask for the attributes of the record it looked up / matched, with the id list of the request
    requires=lambda attribute_ids, ghost: [attribute_ids == ghost.ids],
    returns=Inst('bumble.sdp:DataElement#alist'),
    modifies=[],
    trusted=True,
    note='environment stub inside the continuation contracts: yields some attribute list element; the real function has its '
    'own contract in c19_sdp_match.py',
)
contract(
    T_DE_BYTES,
    key=T_DE_BYTES + '@env',
    params=dict(self=Any),
    ghost=dict(full=Bytes),
    returns=Bytes,
    ensures=lambda res, ghost: [res == ghost.full],
    modifies=['ghost.full'],
    trusted=True,
    note='environment stub (C18 codec): bytes(DataElement) yields an arbitrary byte string; it is recorded in ghost.full as '
    '"the full response" that the chunks must add up to',
)
contract(
    T_GSA,
    key=T_GSA + '@env-attr',
    params=dict(service=Opaque('svc'), attribute_ids=Opaque('ids')),
    ghost=dict(ids=Opaque('ids'), svc=Opt(Opaque('svc'))),
    # ... and, in the ServiceAttribute transaction, of the record found under the requested handle
    requires=lambda service, attribute_ids, ghost: [attribute_ids == ghost.ids, ghost.svc is not None and service == ghost.svc],
    returns=Inst('bumble.sdp:DataElement#alist'),
    modifies=[],
    trusted=True,
    note='as @env, for the ServiceAttribute transaction: the record must be the one stored under the requested handle',
)
ENV_USES = [T_GSA + '@env', T_DE_BYTES + '@env']

# ---------------------------------------------------------------------------
# SDP_ServiceAttribute transaction (Vol 3 Part B 4.6)
# ---------------------------------------------------------------------------
model(
    'bumble.sdp:SDP_ServiceAttributeRequest',
    fields=dict(
        transaction_id=IntRange(0, 0xFFFF),
        service_record_handle=IntRange(0, 0xFFFFFFFF),
        maximum_attribute_byte_count=IntRange(7, 0xFFFF),
        attribute_id_list=Inst('bumble.sdp:DataElement#ids'),
        continuation_state=Bytes,
    ),
)
ATTR_REQ = Inst('bumble.sdp:SDP_ServiceAttributeRequest')
ATTR_GHOST = dict(RESP_GHOST, svc=Opt(Opaque('svc')), handle=Int, ids=Opaque('ids'), full=Bytes)
T_ATTR = 'bumble.sdp:Server.on_sdp_service_attribute_request'


def byte_limit(server, request):
    """MaximumAttributeByteCount of the request, capped so that the response PDU (5 header + 2 byte count + list +
    2 continuation state) fits the peer's MTU"""
    m = server.channel.peer_mtu - 9
    return ite(request.maximum_attribute_byte_count <= m, request.maximum_attribute_byte_count, m)


def chunk_post(self, request, old, ghost, kind, fresh_ok):
    """what a byte-string transaction handler does for `request` (attribute and search-attribute alike)"""
    cs = request.continuation_state
    cont = is_continuation(cs)
    bad_cont = cont and (old.self.current_response is None or cs != CONT)
    served = (cont and not bad_cont) or (not cont and fresh_ok)
    full = ite(cont, pending(old.self), ghost.full)  # what remains to be delivered, this response included
    limit = byte_limit(self, request)
    return [
        ghost.nresp == old.ghost.nresp + 1,  # exactly one response
        ghost.r_tid == request.transaction_id,
        implies(bad_cont, ghost.r_kind == K_ERROR and ghost.r_err == ERR_INVALID_CONTINUATION),
        implies(bad_cont, (self.current_response is None) == (old.self.current_response is None) and pending(self) == pending(old.self)),
        iff(ghost.r_kind == kind, served),
        implies(served, ghost.r_payload + pending(self) == full),  # this chunk ++ what is kept == what remained
        implies(served, len(ghost.r_payload) <= limit),
        implies(served, iff(self.current_response is not None, ghost.r_cont == CONT) and iff(self.current_response is None, ghost.r_cont == NO_CONT)),
        implies(served and self.current_response is not None, len(ghost.r_payload) == limit and len(pending(self)) >= 1),
        implies(served, 7 + len(ghost.r_payload) + len(ghost.r_cont) <= self.channel.peer_mtu),  # the PDU fits the MTU
        implies(cont, ghost.full == old.ghost.full),  # (ghost bookkeeping: only a fresh request defines a new full response)
    ]


CHUNK_NAMES = ['one-response', 'same-transaction-id', 'bad-continuation-rejected', 'bad-continuation-keeps-state', 'served-iff-valid',
               'chunk-plus-kept-is-remaining', 'chunk-within-limit', 'continuation-iff-kept', 'progress', 'pdu-fits-mtu', 'full-defined-by-fresh-request']


def attr_post(self, request, old, ghost):
    fresh = not is_continuation(request.continuation_state)
    return chunk_post(self, request, old, ghost, K_ATTR, ghost.svc is not None) + [
        implies(fresh and ghost.svc is None, ghost.r_kind == K_ERROR and ghost.r_err == ERR_INVALID_HANDLE and self.current_response is None),
    ]


contract(
    T_ATTR,
    prop='C19',
    params=dict(self=SERVER_B, request=ATTR_REQ),
    ghost=ATTR_GHOST,
    requires=lambda self, request, ghost: [self.channel is not None, ghost.handle == request.service_record_handle, ghost.ids == request.attribute_id_list.value],
    ensures=attr_post,
    ensures_names=CHUNK_NAMES + ['unknown-handle-rejected'],
    modifies=['self.current_response', 'ghost.full'] + RESP_MOD,
    uses=[T_CHECK, T_NEXT, T_GSA + '@env-attr', T_DE_BYTES + '@env'],
    inline=['SDP_PDU.__init__'],
)


# ---------------------------------------------------------------------------
# SDP_ServiceSearchAttribute transaction (Vol 3 Part B 4.7)
# ---------------------------------------------------------------------------
model(
    'ghost:SdpMatches',
    fields={},
    methods={
        'values': Callback('values', effect=lambda ghost: ghost.matched),
        'keys': Callback('keys', effect=lambda ghost: ghost.matched_handles),
    },
)
T_MATCH = 'bumble.sdp:Server.match_services'
contract(
    T_MATCH,
    key=T_MATCH + '@env',
    params=dict(self=Any, search_pattern=Any),
    ghost=dict(pattern=Opaque('pattern')),
    # the handler must search with the pattern of the request
    requires=lambda search_pattern, ghost: [search_pattern.value == ghost.pattern],
    returns=Inst('ghost:SdpMatches'),
    modifies=[],
    trusted=True,
    note='environment stub inside the continuation contracts: yields the matching records (ghost.matched / ghost.matched_handles); '
    'the real function has its own contract in c19_sdp_match.py',
)

model(
    'bumble.sdp:SDP_ServiceSearchAttributeRequest',
    fields=dict(
        transaction_id=IntRange(0, 0xFFFF),
        service_search_pattern=Inst('bumble.sdp:DataElement#pattern'),
        maximum_attribute_byte_count=IntRange(7, 0xFFFF),
        attribute_id_list=Inst('bumble.sdp:DataElement#ids'),
        continuation_state=Bytes,
    ),
)
SA_REQ = Inst('bumble.sdp:SDP_ServiceSearchAttributeRequest')
SA_GHOST = dict(RESP_GHOST, ids=Opaque('ids'), pattern=Opaque('pattern'), matched=ListOf(Opaque('svc')), matched_handles=ListOf(Int), full=Bytes)
T_SA = 'bumble.sdp:Server.on_sdp_service_search_attribute_request'

contract(
    T_SA,
    prop='C19',
    params=dict(self=SERVER_B, request=SA_REQ),
    ghost=SA_GHOST,
    requires=lambda self, request, ghost: [self.channel is not None, ghost.ids == request.attribute_id_list.value, ghost.pattern == request.service_search_pattern.value],
    ensures=lambda self, request, old, ghost: chunk_post(self, request, old, ghost, K_SEARCH_ATTR, True),
    ensures_names=CHUNK_NAMES,
    modifies=['self.current_response', 'ghost.full'] + RESP_MOD,
    invariants={0: lambda _i, old, ghost: [_i >= 0, ghost.nresp == old.ghost.nresp]},
    uses=[T_CHECK, T_NEXT, T_MATCH + '@env'] + ENV_USES,
    inline=['SDP_PDU.__init__', 'DataElement.sequence', 'DataElement.__post_init__'],
    note='the loop that gathers the attribute lists of the matching records only feeds bytes(attribute_lists), which is an '
    'environment stub here (any byte string): the contract covers the chunking of whatever that serialisation is',
)


# ---------------------------------------------------------------------------
# SDP_ServiceSearch transaction (Vol 3 Part B 4.5): the pending response is (total count, handles not yet sent)
# ---------------------------------------------------------------------------
model(
    'bumble.sdp:Server#s',
    fields=dict(current_response=Opt(TupleOf(Int, ListOf(Int))), channel=Opt(CHANNEL)),
    methods={'send_response': SEND},
)
SERVER_S = Inst('bumble.sdp:Server#s')


def pending_handles(server):
    return [] if server.current_response is None else list(server.current_response[1])


def pending_total(server):
    return 0 if server.current_response is None else server.current_response[0]


contract(
    T_CHECK,
    key=T_CHECK + '@handles',
    prop='C19',
    params=dict(self=SERVER_S, continuation_state=Bytes, transaction_id=IntRange(0, 0xFFFF)),
    ghost=RESP_GHOST,
    returns=OneOf(True, False, None),
    ensures=lambda self, continuation_state, transaction_id, res, old, ghost: [
        iff(res is True, is_continuation(continuation_state) and old.self.current_response is not None and continuation_state == CONT),
        iff(res is False, not is_continuation(continuation_state)),
        iff(res is None, is_continuation(continuation_state) and (old.self.current_response is None or continuation_state != CONT)),
        implies(res is None, error_sent(old, ghost, transaction_id, ERR_INVALID_CONTINUATION)),
        implies(res is not None, nothing_sent(old, ghost)),
        implies(res is False, self.current_response is None),
        implies(res is not False, (self.current_response is None) == (old.self.current_response is None) and pending_total(self) == pending_total(old.self)
                and pending_handles(self) == pending_handles(old.self)),
    ],
    ensures_names=['continuation-accepted', 'fresh-request', 'continuation-rejected', 'rejected-error-sent', 'nothing-sent-otherwise',
                   'fresh-drops-leftover', 'pending-untouched'],
    modifies=['self.current_response'] + RESP_MOD,
    inline=['SDP_PDU.__init__'],
)

model(
    'bumble.sdp:SDP_ServiceSearchRequest',
    fields=dict(
        transaction_id=IntRange(0, 0xFFFF),
        service_search_pattern=Inst('bumble.sdp:DataElement#pattern'),
        maximum_service_record_count=IntRange(1, 0xFFFF),
        continuation_state=Bytes,
    ),
)
SEARCH_REQ = Inst('bumble.sdp:SDP_ServiceSearchRequest')
SEARCH_GHOST = dict(RESP_GHOST, pattern=Opaque('pattern'), matched=ListOf(Opaque('svc')), matched_handles=ListOf(Int))
T_SEARCH = 'bumble.sdp:Server.on_sdp_service_search_request'


def handles_per_pdu(server):
    """handles that fit one response: 5 header + 2 total + 2 current count + 4 per handle + 2 continuation state"""
    return (server.channel.peer_mtu - 11) // 4


def search_post(self, request, old, ghost):
    cs = request.continuation_state
    cont = is_continuation(cs)
    bad_cont = cont and (old.self.current_response is None or cs != CONT)
    served = not bad_cont
    total = ite(cont, pending_total(old.self), len(ghost.matched_handles))
    return [
        ghost.nresp == old.ghost.nresp + 1,
        ghost.r_tid == request.transaction_id,
        implies(bad_cont, ghost.r_kind == K_ERROR and ghost.r_err == ERR_INVALID_CONTINUATION),
        implies(bad_cont, (self.current_response is None) == (old.self.current_response is None) and pending_handles(self) == pending_handles(old.self)),
        iff(ghost.r_kind == K_SEARCH, served),
        # this chunk of handles ++ the handles kept == the handles that remained (for a fresh request: the matching
        # handles, cut to MaximumServiceRecordCount)
        implies(served and cont, list(ghost.r_handles) + pending_handles(self) == pending_handles(old.self)),
        implies(served and not cont, list(ghost.r_handles) + pending_handles(self) == list(ghost.matched_handles)[: request.maximum_service_record_count]),
        implies(served, len(ghost.r_handles) <= handles_per_pdu(self)),
        implies(served, ghost.r_total == total and pending_total(self) == total),
        implies(served, iff(len(pending_handles(self)) > 0, ghost.r_cont == CONT) and iff(len(pending_handles(self)) == 0, ghost.r_cont == NO_CONT)),
        implies(served and len(pending_handles(self)) > 0, len(ghost.r_handles) == handles_per_pdu(self)),
        implies(served, 9 + 4 * len(ghost.r_handles) + len(ghost.r_cont) <= self.channel.peer_mtu),  # the PDU fits the MTU
    ]


contract(
    T_SEARCH,
    prop='C19',
    params=dict(self=SERVER_S, request=SEARCH_REQ),
    ghost=SEARCH_GHOST,
    requires=lambda self, request, ghost: [self.channel is not None, ghost.pattern == request.service_search_pattern.value],
    ensures=search_post,
    ensures_names=['one-response', 'same-transaction-id', 'bad-continuation-rejected', 'bad-continuation-keeps-state', 'served-iff-valid',
                   'chunk-plus-kept-is-remaining', 'first-chunk-plus-kept-is-matching-handles', 'chunk-within-limit', 'total-count-constant', 'continuation-iff-kept', 'progress', 'pdu-fits-mtu'],
    modifies=['self.current_response'] + RESP_MOD,
    uses=[T_CHECK + '@handles', T_MATCH + '@env'],
    inline=['SDP_PDU.__init__'],
)


# ---------------------------------------------------------------------------
# the response path and the connection slot: Server.send_response / on_connection
# ---------------------------------------------------------------------------
def write_on_1(ghost, pdu):
    ghost.on1 = ghost.on1 + 1
    ghost.last1 = pdu


def write_on_2(ghost, pdu):
    ghost.on2 = ghost.on2 + 1
    ghost.last2 = pdu


model('ghost:SdpClientChannel1', fields=dict(peer_mtu=IntRange(48, 0xFFFF), sink=Any), methods={'write': Callback('write', effect=write_on_1)})
model('ghost:SdpClientChannel2', fields=dict(peer_mtu=IntRange(48, 0xFFFF), sink=Any), methods={'write': Callback('write', effect=write_on_2)})
CH1 = Inst('ghost:SdpClientChannel1')
CH2 = Inst('ghost:SdpClientChannel2')
model(
    'bumble.sdp:Server#m',
    fields=dict(current_response=Opt(Bytes), channel=Opt(OneOf(CH1, CH2)), service_records=Inst('ghost:SdpRecords')),
)
SERVER_M = Inst('bumble.sdp:Server#m')
MC_GHOST = dict(on1=Int, on2=Int, last1=Any, last2=Any)

contract(
    'bumble.sdp:Server.send_response',
    prop='C19',
    params=dict(self=Inst('bumble.sdp:Server#m', channel=CH1), response=Opaque('pdu')),
    ghost=MC_GHOST,
    # the response goes, once and unchanged, to the channel the server holds
    ensures=lambda self, response, old, ghost: [ghost.on1 == old.ghost.on1 + 1, ghost.last1 == response, ghost.on2 == old.ghost.on2],
    ensures_names=['written-once-to-own-channel', 'unchanged', 'nothing-elsewhere'],
    modifies=['ghost.on1', 'ghost.last1'],
)

contract(
    'bumble.sdp:Server.on_connection',
    prop='C19',
    params=dict(self=SERVER_M, channel=CH1),
    ensures=lambda self, channel: [self.channel is not None and self.channel == channel],
    ensures_names=['channel-registered'],
    modifies=['self.channel', 'channel.sink'],
    note='per-function view only: the single `channel` slot is what the sdp_two_clients lemmas show to be insufficient',
)


def lemma_sdp_two_clients_channel(server, c1, c2, request):
    """statement: any number of simultaneously connected clients.  Two clients connect; the first one sends a request
    (its L2CAP channel hands the PDU to its sink, which is server.on_pdu, which dispatches to the handler): the
    response must be written to the FIRST client's channel.  (The simplest request is used: an unknown record
    handle, answered by an error response.)"""
    server.on_connection(c1)
    server.on_connection(c2)
    server.on_sdp_service_attribute_request(request)


lemma(
    'sdp_two_clients_response_channel',
    lemma_sdp_two_clients_channel,
    prop='C19',
    params=dict(server=Inst('bumble.sdp:Server#m', channel=Const(None), current_response=Const(None)), c1=CH1, c2=CH2, request=ATTR_REQ),
    ghost=dict(MC_GHOST, svc=Opt(Opaque('svc')), handle=Int, ids=Opaque('ids'), full=Bytes),
    requires=lambda request, ghost: [ghost.svc is None, ghost.handle == request.service_record_handle, len(request.continuation_state) == 1],
    ensures=lambda old, ghost: [
        ghost.on1 == old.ghost.on1 + 1,  # the requester got its response
        ghost.on2 == old.ghost.on2,  # the other client got nothing
    ],
    ensures_names=['requester-gets-the-response', 'other-client-gets-nothing'],
    modifies=['server.channel', 'server.current_response', 'c1.sink', 'c2.sink', 'ghost.on1', 'ghost.on2', 'ghost.last1', 'ghost.last2', 'ghost.full'],
    inline=['Server.on_connection', 'Server.on_sdp_service_attribute_request', 'Server.send_response', 'Server.check_continuation', 'SDP_PDU.__init__'],
    uses=[T_GSA + '@env-attr', T_DE_BYTES + '@env'],
)


# ---------------------------------------------------------------------------
# client side: the real accumulation loops, their send_request served by the server handlers (through contracts)
# ---------------------------------------------------------------------------
from bumble.core import InvalidStateError, ProtocolError  # noqa: E402

# peer views of the handlers: same postconditions, but nothing is demanded about WHICH id list / pattern the request
# carries (the client builds real DataElements; their content is not tracked through the round trip)
contract(
    T_GSA,
    key=T_GSA + '@env-any',
    params=dict(service=Any, attribute_ids=Any),
    returns=Inst('bumble.sdp:DataElement#alist'),
    modifies=[],
    trusted=True,
    note='environment stub for the peer views: some attribute list element',
)
contract(
    T_MATCH,
    key=T_MATCH + '@env-any',
    params=dict(self=Any, search_pattern=Any),
    returns=Inst('ghost:SdpMatches'),
    modifies=[],
    trusted=True,
    note='environment stub for the peer views: the matching records are ghost.matched / ghost.matched_handles',
)
contract(
    T_ATTR,
    key=T_ATTR + '@peer',
    prop='C19',
    params=dict(self=SERVER_B, request=ATTR_REQ),
    ghost=ATTR_GHOST,
    requires=lambda self, request, ghost: [self.channel is not None, ghost.handle == request.service_record_handle],
    ensures=attr_post,
    ensures_names=CHUNK_NAMES + ['unknown-handle-rejected'],
    modifies=['self.current_response', 'ghost.full'] + RESP_MOD,
    uses=[T_CHECK, T_NEXT, T_GSA + '@env-any', T_DE_BYTES + '@env'],
    inline=['SDP_PDU.__init__'],
)
contract(
    T_SA,
    key=T_SA + '@peer',
    prop='C19',
    params=dict(self=SERVER_B, request=SA_REQ),
    ghost=SA_GHOST,
    requires=lambda self: [self.channel is not None],
    ensures=lambda self, request, old, ghost: chunk_post(self, request, old, ghost, K_SEARCH_ATTR, True),
    ensures_names=CHUNK_NAMES,
    modifies=['self.current_response', 'ghost.full'] + RESP_MOD,
    invariants={0: lambda _i, old, ghost: [_i >= 0, ghost.nresp == old.ghost.nresp]},
    uses=[T_CHECK, T_NEXT, T_MATCH + '@env-any', T_GSA + '@env-any', T_DE_BYTES + '@env'],
    inline=['SDP_PDU.__init__', 'DataElement.sequence', 'DataElement.__post_init__'],
)
contract(
    T_SEARCH,
    key=T_SEARCH + '@peer',
    prop='C19',
    params=dict(self=SERVER_S, request=SEARCH_REQ),
    ghost=SEARCH_GHOST,
    requires=lambda self: [self.channel is not None],
    ensures=search_post,
    ensures_names=['one-response', 'same-transaction-id', 'bad-continuation-rejected', 'bad-continuation-keeps-state', 'served-iff-valid',
                   'chunk-plus-kept-is-remaining', 'first-chunk-plus-kept-is-matching-handles', 'chunk-within-limit', 'total-count-constant',
                   'continuation-iff-kept', 'progress', 'pdu-fits-mtu'],
    modifies=['self.current_response'] + RESP_MOD,
    uses=[T_CHECK + '@handles', T_MATCH + '@env-any'],
    inline=['SDP_PDU.__init__'],
)


def serve_attribute(ghost, request):
    """the peer: a bumble SDP server, reached through the contract of its handler; an error response comes back
    as ProtocolError (Client.on_pdu), any other response as the response object"""
    ghost.requests = ghost.requests + 1
    ghost.server.on_sdp_service_attribute_request(request)
    if ghost.r_kind == K_ERROR:
        raise ProtocolError(error_code=ghost.r_err)
    return sdp.SDP_ServiceAttributeResponse(transaction_id=ghost.r_tid, attribute_list=ghost.r_payload, continuation_state=ghost.r_cont)


def parsed_element(ghost):
    return ghost.element


DE = opaque_record('de', type=Int, value=Opaque('elements'))
model('bumble.sdp:DataElement#parsed', fields=dict(type=Int, value=ListOf(DE)))
T_DE_FROM = 'bumble.sdp:DataElement.from_bytes'
contract(
    T_DE_FROM,
    key=T_DE_FROM + '@env',
    params=dict(cls=Any, data=Bytes),
    ghost=dict(parsed=Bytes),
    returns=Inst('bumble.sdp:DataElement#parsed'),
    ensures=lambda data, ghost: [ghost.parsed == data],
    modifies=['ghost.parsed'],
    trusted=True,
    note='environment stub (C18 codec): DataElement.from_bytes yields some element; the bytes it was given are recorded in ghost.parsed',
)
T_LIST_FROM = 'bumble.sdp:ServiceAttribute.list_from_data_elements'
contract(
    T_LIST_FROM,
    key=T_LIST_FROM + '@env',
    params=dict(elements=Any),
    returns=Opaque('attributes'),
    modifies=[],
    trusted=True,
    note='environment stub (C18 codec): pairs up (id, value) elements of the parsed sequence',
)

model(
    'bumble.sdp:Client#attr',
    fields=dict(pending_request=Const(None), channel=Opaque('l2cap'), next_transaction_id=IntRange(0, 0xFFFF)),
    methods={'send_request': Callback('send_request', effect=serve_attribute, is_async=True, raises=(ProtocolError,))},
)
CLI_ATTR_GHOST = dict(ATTR_GHOST, server=SERVER_B, requests=Int, parsed=Bytes)
WATCHDOG = sdp.SDP_CONTINUATION_WATCHDOG


def client_bytes_inv(accumulator, continuation_state, watchdog, ghost):
    """accumulated ++ what the server still holds == the full response"""
    first = watchdog == WATCHDOG
    return [
        0 <= watchdog and watchdog <= WATCHDOG,
        ghost.requests == WATCHDOG - watchdog,
        ghost.server.channel is not None,
        implies(first, len(accumulator) == 0 and continuation_state == NO_CONT),
        implies(not first, continuation_state == CONT and ghost.server.current_response is not None and accumulator + pending(ghost.server) == ghost.full),
    ]


def client_bytes_post(ghost):
    """what was handed to the parser ++ what the server still holds == the full response; something is left behind
    only when the client's continuation limit (64 requests) was reached"""
    return [
        ghost.parsed + pending(ghost.server) == ghost.full,
        len(pending(ghost.server)) == 0 or ghost.requests == WATCHDOG,
        1 <= ghost.requests and ghost.requests <= WATCHDOG,
    ]


T_GET = 'bumble.sdp:Client.get_attributes'
contract(
    T_GET,
    prop='C19',
    params=dict(self=Inst('bumble.sdp:Client#attr'), service_record_handle=IntRange(0, 0xFFFFFFFF), attribute_ids=Const(())),
    ghost=CLI_ATTR_GHOST,
    requires=lambda self, service_record_handle, ghost: [ghost.server.channel is not None, ghost.handle == service_record_handle, ghost.svc is not None, ghost.requests == 0],
    ensures=lambda ghost: client_bytes_post(ghost),
    ensures_names=['parsed-plus-kept-is-full-response', 'complete-unless-continuation-limit', 'request-count'],
    invariants={0: client_bytes_inv},
    decreases={0: lambda watchdog: watchdog},
    modifies=['self.next_transaction_id', 'ghost.server.current_response', 'ghost.full', 'ghost.requests', 'ghost.parsed'] + RESP_MOD,
    uses=[T_ATTR + '@peer', T_DE_FROM + '@env', T_LIST_FROM + '@env'],
    inline=['Client.make_transaction_id', 'SDP_PDU.__init__', 'DataElement.sequence', 'DataElement.__post_init__', 'BaseError.__init__'],
    note='ghost driver: Client.send_request is served by the contract of Server.on_sdp_service_attribute_request (same channel MTU '
    'on the server side, symbolic); attribute_ids is the empty list here (the id list is not tracked through the round trip)',
)


def serve_search_attribute(ghost, request):
    ghost.requests = ghost.requests + 1
    ghost.server.on_sdp_service_search_attribute_request(request)
    if ghost.r_kind == K_ERROR:
        raise ProtocolError(error_code=ghost.r_err)
    return sdp.SDP_ServiceSearchAttributeResponse(transaction_id=ghost.r_tid, attribute_lists=ghost.r_payload, continuation_state=ghost.r_cont)


model(
    'bumble.sdp:Client#sa',
    fields=dict(pending_request=Const(None), channel=Opaque('l2cap'), next_transaction_id=IntRange(0, 0xFFFF)),
    methods={'send_request': Callback('send_request', effect=serve_search_attribute, is_async=True, raises=(ProtocolError,))},
)
T_SEARCH_ATTRS = 'bumble.sdp:Client.search_attributes'
contract(
    T_SEARCH_ATTRS,
    prop='C19',
    params=dict(self=Inst('bumble.sdp:Client#sa'), uuids=Const(()), attribute_ids=Const(())),
    ghost=dict(SA_GHOST, server=SERVER_B, requests=Int, parsed=Bytes),
    requires=lambda self, ghost: [ghost.server.channel is not None, ghost.requests == 0],
    ensures=lambda ghost: client_bytes_post(ghost),
    ensures_names=['parsed-plus-kept-is-full-response', 'complete-unless-continuation-limit', 'request-count'],
    invariants={0: client_bytes_inv},
    decreases={0: lambda watchdog: watchdog},
    modifies=['self.next_transaction_id', 'ghost.server.current_response', 'ghost.full', 'ghost.requests', 'ghost.parsed'] + RESP_MOD,
    uses=[T_SA + '@peer', T_DE_FROM + '@env', T_LIST_FROM + '@env'],
    inline=['Client.make_transaction_id', 'SDP_PDU.__init__', 'DataElement.sequence', 'DataElement.__post_init__', 'BaseError.__init__'],
    note='ghost driver: Client.send_request is served by the contract of Server.on_sdp_service_search_attribute_request; uuids and '
    'attribute_ids are empty lists here (pattern and id list are not tracked through the round trip); the final list '
    'comprehension over the parsed sequences is C18 (stubbed)',
)


def serve_search(ghost, request):
    ghost.requests = ghost.requests + 1
    ghost.server.on_sdp_service_search_request(request)
    if ghost.r_kind == K_ERROR:
        raise ProtocolError(error_code=ghost.r_err)
    return sdp.SDP_ServiceSearchResponse(
        transaction_id=ghost.r_tid, total_service_record_count=ghost.r_total, service_record_handle_list=ghost.r_handles, continuation_state=ghost.r_cont
    )


model(
    'bumble.sdp:Client#s',
    fields=dict(pending_request=Const(None), channel=Opaque('l2cap'), next_transaction_id=IntRange(0, 0xFFFF)),
    methods={'send_request': Callback('send_request', effect=serve_search, is_async=True, raises=(ProtocolError,))},
)
T_SEARCH_SERVICES = 'bumble.sdp:Client.search_services'


def client_handles_inv(service_record_handle_list, continuation_state, watchdog, ghost):
    first = watchdog == WATCHDOG
    return [
        0 <= watchdog and watchdog <= WATCHDOG,
        ghost.requests == WATCHDOG - watchdog,
        ghost.server.channel is not None,
        implies(first, len(service_record_handle_list) == 0 and continuation_state == NO_CONT),
        implies(not first, continuation_state == CONT and ghost.server.current_response is not None
                and list(service_record_handle_list) + pending_handles(ghost.server) == list(ghost.matched_handles)[:0xFFFF]),
    ]


contract(
    T_SEARCH_SERVICES,
    prop='C19',
    params=dict(self=Inst('bumble.sdp:Client#s'), uuids=Const(())),
    ghost=dict(SEARCH_GHOST, server=SERVER_S, requests=Int),
    requires=lambda self, ghost: [ghost.server.channel is not None, ghost.requests == 0],
    ensures=lambda res, ghost: [
        # returned handles ++ handles the server still holds == the matching handles (the client asks for up to 0xFFFF)
        list(res) + pending_handles(ghost.server) == list(ghost.matched_handles)[:0xFFFF],
        len(pending_handles(ghost.server)) == 0 or ghost.requests == WATCHDOG,
        1 <= ghost.requests and ghost.requests <= WATCHDOG,
    ],
    ensures_names=['returned-plus-kept-is-matching-handles', 'complete-unless-continuation-limit', 'request-count'],
    invariants={0: client_handles_inv},
    decreases={0: lambda watchdog: watchdog},
    loop_locals={0: {'service_record_handle_list': ListOf(Int)}},
    modifies=['self.next_transaction_id', 'ghost.server.current_response', 'ghost.requests'] + RESP_MOD,
    uses=[T_SEARCH + '@peer'],
    inline=['Client.make_transaction_id', 'SDP_PDU.__init__', 'DataElement.sequence', 'DataElement.__post_init__', 'BaseError.__init__'],
    note='ghost driver: Client.send_request is served by the contract of Server.on_sdp_service_search_request',
)


# ---------------------------------------------------------------------------
# lemma: one client's continuation state must survive another client's request
# ---------------------------------------------------------------------------
def lemma_sdp_two_clients_continuation(server, req1, req2, req1c):
    """client 1 starts a ServiceAttribute transaction whose answer does not fit one response; client 2 (another
    peer, another L2CAP channel, same server object) then makes a request of its own; client 1 continues.  What
    client 1 receives must continue ITS response.  (handlers through their contracts)"""
    server.on_sdp_service_attribute_request(req1)
    rest_1 = pending(server)
    server.on_sdp_service_attribute_request(req2)
    server.on_sdp_service_attribute_request(req1c)
    return rest_1


lemma(
    'sdp_two_clients_continuation_state',
    lemma_sdp_two_clients_continuation,
    prop='C19',
    params=dict(server=SERVER_B, req1=ATTR_REQ, req2=ATTR_REQ, req1c=ATTR_REQ),
    ghost=ATTR_GHOST,
    requires=lambda server, req1, req2, req1c, ghost: [
        server.channel is not None,
        ghost.svc is not None,
        ghost.handle == req1.service_record_handle and ghost.handle == req2.service_record_handle and ghost.handle == req1c.service_record_handle,
        not is_continuation(req1.continuation_state),  # client 1: fresh request ...
        not is_continuation(req2.continuation_state),  # client 2: fresh request
        req1c.continuation_state == CONT,  # client 1: continuation
        req2.maximum_attribute_byte_count < req1.maximum_attribute_byte_count,  # (so that the two clients are at different positions)
    ],
    ensures_names=['continuation-served-from-own-remainder'],
    ensures=lambda server, res, ghost: [
        # if client 1 had something pending, its continuation is served from that remainder
        implies(len(res) > 0, ghost.r_kind == K_ATTR and ghost.r_payload + pending(server) == res),
    ],
    modifies=['server.current_response', 'ghost.full'] + RESP_MOD,
    uses=[T_ATTR + '@peer'],
)
