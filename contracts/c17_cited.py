"""C17 -- entry points whose totality / state-safety contracts were written for other properties and are *cited* by C17:
they are re-run under `./check C17` (same contract objects, same obligations, names keep their home prefix C02/ or C18/),
so that a change that wedges one of these parsers on hostile input is reported by the C17 check too.

  PacketParser.feed_data          (contracts/c02_framing.py): an invalid packet-type byte leaves the parser in its initial
                                  state (later well-formed data is framed from its first byte), loop measure, invariant
  DataElementParser._list_from_bytes / parse_next
                                  (contracts/c18_more.py): nesting depth restored on every normal exit and bounded by
                                  max_depth, offsets advance (termination), arbitrary bytes
Entries with known findings of their home property (AVCTP assembler, C19) are not re-run here: a finding is keyed by property.
"""
from pyvc.contracts import REG

import contracts.c02_framing  # noqa: F401  (registers the C02 contracts)
import contracts.c18_more  # noqa: F401

ENVIRONMENT = [
    'C17 re-runs the cited contracts PacketParser.feed_data (C02) and DataElementParser._list_from_bytes / parse_next (C18) '
    'unchanged; the other cited entry points (C01 packet classes, C05 assembler, C07 CoC receiver, C10/C11 ATT server, C19 '
    'assemblers, C20 DLC/AT) are checked by their own properties only',
]

_CITED = [
    ('C02', 'bumble.transport.common:PacketParser.feed_data'),
    ('C18', 'bumble.sdp:DataElementParser._list_from_bytes'),
    ('C18', 'bumble.sdp:DataElementParser.parse_next'),
]
for _prop, _key in _CITED:
    _top = next((t for t in REG.by_prop.get(_prop, []) if (getattr(t, 'key', None) or t.name) == _key), None)
    if _top is None:
        raise RuntimeError(f'cited contract {_key} of {_prop} not found')
    if _top not in REG.by_prop.setdefault('C17', []):
        REG.by_prop['C17'].append(_top)
