"""C19 (AVDTP part) -- an AVDTP signalling message of any size is fragmented to fit the peer's MTU and
reassembled byte-identically; a broken fragment sequence discards only that message.

  MessageAssembler.reset / __init__ / on_message_complete / on_pdu   step contract written from the statement
  Protocol.send_message                                             fragmentation loop, every packet checked as emitted
  lemma avdtp_roundtrip                                             sender packets (as the sender contract describes
                                                                    them) through the assembler contract, any length/MTU
  lemma avdtp_message_after_broken_sequence                         whatever was in progress, a complete message that
                                                                    follows is delivered (only the broken one is lost)
"""
from bumble import avdtp
from pyvc.contracts import (Any, Bool, Bytes, Callback, Inst, Int, IntRange, OneOf, Opt, contract, iff, implies, lemma,
                            model, at, ite)
from spec.avdtp import CONTINUE, END, SINGLE, START, label_of, mtype_of, ptype_of, too_short

ENVIRONMENT = [
    'AVDTP: Message.create (payload parser, C18 codec) is a recorded stub that returns a message object carrying '
    'exactly the (signal identifier, message type, payload) it was given; that it does not raise on a malformed '
    'payload is C17/C18, not C19',
    'AVDTP: the L2CAP channel (write, peer_mtu) is a recording stub: that a written packet reaches the peer sink '
    'once and in order is C05/C08',
    'AVDTP: the assembler callback does not re-enter the assembler (A2); an exception it raises is logged and dropped',
    'AVDTP: bumble puts the signal identifier in octet 1 and NOSP in octet 2 of a start packet (sender and receiver '
    'alike); AVDTP 8.4.2 has NOSP first. The two ends of the statement are both bumble, so this does not break '
    'the round trip; interoperability with other stacks is outside the statement',
    'AVDTP stream procedures (two-party asynchronous state machines) are outside contracts; see c19_stream.py for '
    'the per-function state guards',
]


# ---------------------------------------------------------------------------
# receiver
# ---------------------------------------------------------------------------
model('bumble.avdtp:Message#made', fields=dict(_payload=Opt(Bytes), message_type=Int, signal_identifier=Int))
contract(
    'bumble.avdtp:Message.create',
    key='bumble.avdtp:Message.create@env',
    params=dict(cls=OneOf(avdtp.Message), signal_identifier=Int, message_type=Int, payload=Bytes),
    returns=Inst('bumble.avdtp:Message#made'),
    ensures=lambda signal_identifier, message_type, payload, res: [
        res._payload is not None and res._payload == payload,
        res.message_type == message_type,
        res.signal_identifier == signal_identifier,
    ],
    modifies=[],
    trusted=True,
    note='environment stub (C18 codec): Message.create returns a message carrying exactly the signal identifier, message '
    'type and payload bytes it was given (every branch of the real factory sets these three; its field parsing is C18)',
)
USE_CREATE = ['bumble.avdtp:Message.create@env']


def asm_deliver(ghost, transaction_label, message):
    ghost.n = ghost.n + 1
    ghost.d_label = transaction_label
    ghost.d_sid = message.signal_identifier
    ghost.d_type = message.message_type
    ghost.d_payload = message.payload
    if ghost.cb_fails:
        raise ValueError('callback failed')


ASM_CB = Callback('callback', effect=asm_deliver, raises=(ValueError,))

model(
    'bumble.avdtp:MessageAssembler',
    fields=dict(
        callback=ASM_CB,
        transaction_label=IntRange(0, 15),
        message=Opt(Bytes),
        message_type=IntRange(0, 3),
        signal_identifier=IntRange(0, 63),
        number_of_signal_packets=IntRange(0, 255),
        packet_count=Int,
    ),
)
ASM = Inst('bumble.avdtp:MessageAssembler')
ASM_GHOST = dict(n=Int, d_label=Int, d_sid=Int, d_type=Int, d_payload=Bytes, cb_fails=Bool)
ASM_STATE = ['self.transaction_label', 'self.message', 'self.message_type', 'self.signal_identifier', 'self.number_of_signal_packets', 'self.packet_count']
ASM_MOD = ASM_STATE + ['ghost.n', 'ghost.d_label', 'ghost.d_sid', 'ghost.d_type', 'ghost.d_payload']


def clean(asm):
    """nothing in progress: exactly the state reset() establishes"""
    return asm.message is None and asm.packet_count == 0 and asm.number_of_signal_packets == 0 and asm.transaction_label == 0 and asm.message_type == 0 and asm.signal_identifier == 0


def wf(asm):
    """representation invariant: `message` becomes None only through reset(), so an idle assembler is clean;
    packet_count is the number of packets whose fragments are in `message` (the start packet and the accepted
    continuations)"""
    return ite(asm.message is None, clean(asm), asm.packet_count >= 1)


def same_state(a, o):
    return [
        (a.message is None) == (o.message is None),
        a.message == o.message,
        a.packet_count == o.packet_count,
        a.number_of_signal_packets == o.number_of_signal_packets,
        a.transaction_label == o.transaction_label,
        a.message_type == o.message_type,
        a.signal_identifier == o.signal_identifier,
    ]


def all_of(xs):
    r = True
    for x in xs:
        r = r and x
    return r


def in_progress(a, label, mtype, sid, nosp, message, count):
    return a.message is not None and a.message == message and a.packet_count == count and a.number_of_signal_packets == nosp and a.transaction_label == label and a.message_type == mtype and a.signal_identifier == sid


def nothing_delivered(old, ghost):
    return ghost.n == old.ghost.n and ghost.d_label == old.ghost.d_label and ghost.d_sid == old.ghost.d_sid and ghost.d_type == old.ghost.d_type and ghost.d_payload == old.ghost.d_payload


def delivered(old, ghost, label, sid, mtype, payload):
    return ghost.n == old.ghost.n + 1 and ghost.d_label == label and ghost.d_sid == sid and ghost.d_type == mtype and ghost.d_payload == payload


def asm_step(self, pdu, old, ghost):
    """reassembly step, from the statement and AVDTP 8.4: a single packet is a whole message; a start
    packet begins a message whatever was in progress (that one is lost, nothing else); continue/end packets with
    the label and message type of the message in progress extend it; the message is delivered exactly when the
    end packet is packet number NOSP, with exactly the concatenated fragments; a fragment that does not belong to
    the message in progress is never counted as one of its packets; after a delivery or a discard the assembler
    is clean, so that the next message is not affected"""
    o = old.self
    t = ptype_of(pdu)
    label = label_of(pdu)
    mtype = mtype_of(pdu)
    short = too_short(pdu)
    idle = o.message is None
    cont = not short and (t == CONTINUE or t == END)
    matches = cont and not idle and label == o.transaction_label and mtype == o.message_type
    stray = cont and not matches
    buf = (b'' if idle else o.message) + pdu[1:]
    complete = matches and t == END and o.packet_count + 1 == o.number_of_signal_packets
    unchanged = all_of(same_state(self, o))
    return [
        wf(self),
        # delivered exactly once iff a well-formed single packet or the completing end packet
        iff(ghost.n == old.ghost.n + 1, (not short and t == SINGLE) or complete),
        implies(not short and t == SINGLE, delivered(old, ghost, label, at(pdu, 1) % 64, mtype, pdu[2:]) and clean(self)),
        implies(complete, delivered(old, ghost, o.transaction_label, o.signal_identifier, o.message_type, buf) and clean(self)),
        implies(not ((not short and t == SINGLE) or complete), nothing_delivered(old, ghost)),
        # start: new message in progress, counted as packet 1
        implies(not short and t == START, in_progress(self, label, mtype, at(pdu, 1) % 64, at(pdu, 2), pdu[3:], 1)),
        # a packet that cannot be parsed, or a continue/end that does not belong to the message in progress:
        # dropped; what is in progress is either kept exactly as it was or discarded as a whole
        implies(short or stray, unchanged or clean(self)),
        implies((short or stray) and idle, clean(self) or unchanged),
        # matching continue: extends by exactly this fragment and counts it, or (count exhausted) discards
        implies(matches and t == CONTINUE, in_progress(self, o.transaction_label, o.message_type, o.signal_identifier, o.number_of_signal_packets, buf, o.packet_count + 1) or clean(self)),
        implies(matches and t == CONTINUE and o.packet_count + 1 < o.number_of_signal_packets, not clean(self)),
        # matching end that is not packet number NOSP: the message is discarded
        implies(matches and t == END and not complete, clean(self)),
    ]


STEP_NAMES = ['wf', 'delivered-once-iff-single-or-complete', 'single-delivered-exact', 'complete-delivered-exact', 'nothing-delivered-otherwise',
              'start-begins-message', 'stray-or-short-dropped', 'idle-stays-usable', 'continue-extends-and-counts', 'continue-kept-below-nosp',
              'bad-end-discards']

contract(
    'bumble.avdtp:MessageAssembler.reset',
    prop='C19',
    params=dict(self=ASM),
    ensures=lambda self: [clean(self), wf(self)],
    modifies=ASM_STATE,
)
USE_RESET = ['bumble.avdtp:MessageAssembler.reset']

contract(
    'bumble.avdtp:MessageAssembler.__init__',
    prop='C19',
    params=dict(
        self=Inst('bumble.avdtp:MessageAssembler', callback=Any, transaction_label=Any, message=Any, message_type=Any, signal_identifier=Any,
                  number_of_signal_packets=Any, packet_count=Any),
        callback=ASM_CB,
    ),
    ensures=lambda self: [clean(self), wf(self)],
    modifies=['self.*'],
    inline=['MessageAssembler.reset'],
)

contract(
    'bumble.avdtp:MessageAssembler.on_message_complete',
    prop='C19',
    params=dict(self=ASM),
    ghost=ASM_GHOST,
    ensures=lambda self, old, ghost: [
        clean(self),
        delivered(old, ghost, old.self.transaction_label, old.self.signal_identifier, old.self.message_type, b'' if old.self.message is None else old.self.message),
    ],
    ensures_names=['clean-afterwards', 'delivered-once-exact'],
    modifies=ASM_MOD,
    uses=USE_RESET + USE_CREATE,
    inline=['Message.payload'],
)

contract(
    'bumble.avdtp:MessageAssembler.on_pdu',
    prop='C19',
    params=dict(self=ASM, pdu=Bytes),
    ghost=ASM_GHOST,
    requires=lambda self: wf(self),
    ensures=asm_step,
    ensures_names=STEP_NAMES,
    modifies=ASM_MOD,
    uses=USE_RESET + ['bumble.avdtp:MessageAssembler.on_message_complete'],
)


# ---------------------------------------------------------------------------
# sender: Protocol.send_message
# ---------------------------------------------------------------------------
def ceil_div(n, f):
    return (n + f - 1) // f


def ch_write(ghost, pdu):
    """recording stub for l2cap_channel.write: every packet is checked as it is emitted (AVDTP 8.4):
    SINGLE, or START(NOSP = n >= 2) CONTINUE^(n-2) END; same label and message type on all; each fits the MTU"""
    k = ghost.k
    t = ptype_of(pdu)
    assert len(pdu) >= 1 and len(pdu) <= ghost.mtu  # fits the peer's MTU
    assert label_of(pdu) == ghost.label and mtype_of(pdu) == ghost.mtype
    if k == 0:
        assert t == SINGLE or t == START
        if t == SINGLE:
            assert len(pdu) >= 2 and pdu[1] == ghost.sid
            ghost.np = 1
            frag = pdu[2:]
        else:
            assert len(pdu) >= 3 and pdu[1] == ghost.sid and pdu[2] >= 2
            ghost.np = pdu[2]  # announced number of signal packets
            frag = pdu[3:]
    else:
        assert k < ghost.np  # nothing after the single / end packet
        assert t == ite(k == ghost.np - 1, END, CONTINUE)  # the end packet is packet number NOSP
        frag = pdu[1:]
    ghost.cat = ghost.cat + frag
    ghost.k = k + 1


def build_tx_message(fields, builder):
    """native replay: a real Message whose enum fields are enum members (they are printed by the debug log)"""
    m = avdtp.Message()
    m._payload = fields['_payload']
    m.message_type = avdtp.Message.MessageType(fields['message_type'])
    m.signal_identifier = avdtp.SignalIdentifier(fields['signal_identifier'])
    return m


model('ghost:AvdtpChannel', fields=dict(peer_mtu=IntRange(4, 0xFFFF)), methods={'write': Callback('write', effect=ch_write)})
model('bumble.avdtp:Message#tx', fields=dict(_payload=Bytes, message_type=IntRange(0, 3), signal_identifier=IntRange(0, 63)), build=build_tx_message)
model('bumble.avdtp:Protocol#tx', fields=dict(l2cap_channel=Inst('ghost:AvdtpChannel')))
TX_GHOST = dict(cat=Bytes, k=Int, np=Int, mtu=Int, label=Int, mtype=Int, sid=Int)


def tx_pre(self, transaction_label, message, ghost):
    return [
        ghost.k == 0,
        ghost.cat == b'',
        ghost.mtu == self.l2cap_channel.peer_mtu,
        ghost.label == transaction_label,
        ghost.mtype == message.message_type,
        ghost.sid == message.signal_identifier,
    ]


def tx_inv(self, message, payload, packet_type, done, max_fragment_size, ghost):
    total = message._payload
    f = max_fragment_size
    n = len(payload)
    k = ghost.k
    np = ghost.np
    return [
        f == ghost.mtu - 3,
        f >= 1,
        k >= 0,
        ghost.cat + payload == total,
        len(ghost.cat) + n == len(total),
        # before the first packet: a single packet only if the whole payload goes into it
        implies(k == 0, len(ghost.cat) == 0 and not done and packet_type == ite(n <= f, SINGLE, START)),
        implies(k > 0, np >= 1),
        implies(k > 0 and np == 1, done),
        # the announced packet count is the number of fragments of f bytes the payload needs
        implies(k > 0 and np > 1, (np - 1) * f < len(total) and len(total) <= np * f),
        # every packet before the last carries exactly f bytes
        implies(k > 0 and np > 1 and not done, len(ghost.cat) == k * f and n > 0 and packet_type == ite(n > f, CONTINUE, END)),
        implies(done, n == 0 and k == np),
    ]


contract(
    'bumble.avdtp:Protocol.send_message',
    prop='C19',
    params=dict(self=Inst('bumble.avdtp:Protocol#tx'), transaction_label=IntRange(0, 15), message=Inst('bumble.avdtp:Message#tx')),
    ghost=TX_GHOST,
    requires=tx_pre,
    ensures=lambda self, message, ghost: [
        ghost.cat == message._payload,  # fragments concatenate to the message payload
        ghost.k == ghost.np and ghost.k >= 1,  # exactly the announced number of packets (1 for a single packet)
    ],
    ensures_names=['fragments-concatenate-to-payload', 'packet-count-as-announced'],
    raises={
        # NOSP is one octet: a message that needs more than 255 packets is refused before anything is sent
        ValueError: lambda self, message, ghost: [ceil_div(len(message._payload), ghost.mtu - 3) > 255, ghost.k == 0, ghost.cat == b''],
    },
    modifies=['ghost.cat', 'ghost.k', 'ghost.np'],
    invariants={0: tx_inv},
    decreases={0: lambda payload, done: len(payload) + (0 if done else 1)},
    inline=['Message.payload'],
)


# ---------------------------------------------------------------------------
# lemmas: sender packets through the assembler (both through their contracts)
# ---------------------------------------------------------------------------
from pyvc.contracts import ListOf, forall  # noqa: E402
from spec.avdtp import header_byte  # noqa: E402


def cut_at(cuts, payload, np, k):
    """end offset of fragment k (0-based) of a message cut at `cuts`; the last fragment ends the payload"""
    return ite(k >= np - 1, len(payload), at(cuts, k))


def lemma_avdtp_roundtrip(asm, payload, label, mtype, sid, np, cuts):
    """the packets the sender contract describes (SINGLE, or START(NOSP) CONTINUE* END with the same label and message
    type, fragments of any sizes that concatenate to the payload) fed to the real assembler through its contract,
    starting from ANY well-formed assembler state (idle, or in the middle of some other -- broken -- message)"""
    if np == 1:
        asm.on_pdu(bytes([header_byte(label, SINGLE, mtype), sid]) + payload)
    else:
        asm.on_pdu(bytes([header_byte(label, START, mtype), sid, np]) + payload[: cut_at(cuts, payload, np, 0)])
        k = 1
        while k < np:
            t = END if k == np - 1 else CONTINUE
            asm.on_pdu(bytes([header_byte(label, t, mtype)]) + payload[cut_at(cuts, payload, np, k - 1) : cut_at(cuts, payload, np, k)])
            k = k + 1


def cuts_ok(cuts, payload, np):
    return [
        len(cuts) >= np - 1,
        forall(0, np - 1, lambda i: 0 <= cuts[i] and cuts[i] <= len(payload)),
        forall(0, np - 2, lambda i: cuts[i] <= cuts[i + 1]),
    ]


RT_PARAMS = dict(asm=ASM, payload=Bytes, label=IntRange(0, 15), mtype=IntRange(0, 3), sid=IntRange(0, 63), np=IntRange(1, 255), cuts=ListOf(Int))
RT_MOD = ['asm.transaction_label', 'asm.message', 'asm.message_type', 'asm.signal_identifier', 'asm.number_of_signal_packets', 'asm.packet_count',
          'ghost.n', 'ghost.d_label', 'ghost.d_sid', 'ghost.d_type', 'ghost.d_payload']

lemma(
    'avdtp_roundtrip',
    lemma_avdtp_roundtrip,
    prop='C19',
    params=RT_PARAMS,
    ghost=ASM_GHOST,
    requires=lambda asm, payload, np, cuts: [wf(asm)] + cuts_ok(cuts, payload, np),
    ensures=lambda asm, payload, label, mtype, sid, old, ghost: [
        ghost.n == old.ghost.n + 1,  # exactly one message is delivered
        ghost.d_payload == payload,  # byte-identical
        ghost.d_label == label and ghost.d_sid == sid and ghost.d_type == mtype,
        clean(asm),  # ready for the next message: sequences of messages compose
    ],
    ensures_names=['delivered-exactly-once', 'byte-identical', 'label-signal-type', 'clean-afterwards'],
    modifies=RT_MOD,
    invariants={
        0: lambda asm, payload, label, mtype, sid, np, cuts, k, old, ghost: [
            1 <= k and k <= np,
            wf(asm),
            implies(k < np, in_progress(asm, label, mtype, sid, np, payload[: cut_at(cuts, payload, np, k - 1)], k) and ghost.n == old.ghost.n),
            implies(k >= np, clean(asm) and delivered(old, ghost, label, sid, mtype, payload)),
        ]
    },
    decreases={0: lambda np, k: np - k},
    uses=['bumble.avdtp:MessageAssembler.on_pdu'],
)


def lemma_avdtp_wrong_count(asm, payload, label, mtype, sid, np, j, cuts):
    """a fragment was dropped or duplicated: START announcing np packets, then j != np-2 continuations, then END"""
    asm.on_pdu(bytes([header_byte(label, START, mtype), sid, np]) + payload[: at(cuts, 0)])
    i = 0
    while i < j:
        asm.on_pdu(bytes([header_byte(label, CONTINUE, mtype)]) + payload[at(cuts, i) : at(cuts, i + 1)])
        i = i + 1
    asm.on_pdu(bytes([header_byte(label, END, mtype)]) + payload[at(cuts, j) :])


lemma(
    'avdtp_dropped_or_duplicated_fragment_discards_message',
    lemma_avdtp_wrong_count,
    prop='C19',
    params=dict(RT_PARAMS, j=IntRange(0, 1000)),
    ghost=ASM_GHOST,
    requires=lambda asm, payload, np, j, cuts: [wf(asm), np >= 2, j != np - 2, len(cuts) >= j + 2],
    ensures=lambda asm, old, ghost: [
        nothing_delivered(old, ghost),  # the incomplete / over-long message is not delivered, in whole or in part
        clean(asm),  # and only that message is lost: the assembler is ready for the next one
    ],
    ensures_names=['nothing-delivered', 'clean-afterwards'],
    modifies=RT_MOD,
    invariants={
        0: lambda asm, label, mtype, np, i, j, old, ghost: [
            0 <= i and i <= j,
            wf(asm),
            nothing_delivered(old, ghost),
            clean(asm) or (asm.message is not None and asm.packet_count == i + 1 and asm.number_of_signal_packets == np and asm.transaction_label == label and asm.message_type == mtype),
        ]
    },
    decreases={0: lambda i, j: j - i},
    uses=['bumble.avdtp:MessageAssembler.on_pdu'],
)
