"""C10 part 4 -- what reaches the server: ATT_PDU.from_bytes on request opcodes.

Device.on_gatt_pdu and the EATT sink call ATT_PDU.from_bytes(pdu) and hand the result to Server.on_gatt_pdu; nothing
catches an exception of the parser.  "For every ATT PDU a peer can send ... exactly one PDU if it is a request" therefore
needs from_bytes to be total on byte strings that start with a request opcode: lemma request_parses/<Class>, one per
request class whose parameters are integers / a trailing byte string (7 of the 12; the three with a UUID parameter and
the two with a handle list are not covered: NOTES).

These lemmas FAIL on the unchanged tree -- a request whose parameters are shorter than its fixed fields makes
struct.unpack_from / an index raise, the exception propagates into the L2CAP receive path and the peer never gets the
Error Response (Invalid PDU) that Vol 3 Part F 3.4.1.1 asks for.  The remedy (catch the parse error where the PDU is
received and answer requests with Invalid PDU) is a behaviour change in device.py and gatt_server.py, not a one-line fix:
proposed as known findings, keyed by the too-short witness (notes/C10/findings.txt).
"""
import pyvc.ext_c01  # noqa: F401  (field-codec models shared with C01/C18)
from bumble import att
from pyvc.contracts import Bytes, lemma
from spec.att import REQUEST_OPCODES

ENVIRONMENT = [
    'Device.on_gatt_pdu (bumble/device.py) and the EATT channel sink of Server.register_eatt are not verified: they are '
    'taken to do what their text says -- parse with ATT_PDU.from_bytes, route even opcodes to Server.on_gatt_pdu',
]

# request classes whose fields are fixed-size integers optionally followed by a '*' byte string
SIMPLE_REQUESTS = ('ATT_Exchange_MTU_Request', 'ATT_Find_Information_Request', 'ATT_Read_Request', 'ATT_Read_Blob_Request', 'ATT_Write_Request',
                   'ATT_Prepare_Write_Request', 'ATT_Execute_Write_Request')


def _mk(cls):
    op = int(cls.op_code)

    def lemma_request_parses(params):
        """any byte string that starts with this request opcode is turned into a PDU the server can dispatch on"""
        pdu = att.ATT_PDU.from_bytes(bytes([op]) + params)
        assert pdu.op_code == op

    return lemma_request_parses


for _op in REQUEST_OPCODES:
    _cls = att.ATT_PDU.pdu_classes[_op]
    if _cls.__name__ in SIMPLE_REQUESTS:
        lemma(f'request_parses/{_cls.__name__}', _mk(_cls), prop='C10', params=dict(params=Bytes), inline=['bumble.hci:*', 'bumble.att:*'])
