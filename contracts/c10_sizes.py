"""C10 part 2 -- nothing the server transmits is longer than the bearer's ATT_MTU.

For every handler that builds a response from attribute data the response handed to Server.send_response is
serialised by the real ATT_PDU.__bytes__ (payload / HCI_Object.dict_to_bytes, executed in place) and its length is
compared with bearer.att_mtu (any value >= 23, not only <= 517).  Attribute values are arbitrary byte strings (any
length, not only <= 512), the database is a list of attributes of any length, requests carry any 16-bit parameters
and handle lists of any length.  Each collecting loop carries the invariant
    octets collected so far == budget - pdu_space_available   and   pdu_space_available >= 0.
"""
import struct

from bumble import att
from contracts.c10_reply import (ATTR, ATTR_LIST, BEARER, ERR_INLINE, GHOST, HANDLERS, MOD, RUN_IN_TASK, SERVER, UUID_T, attr_read, attr_write, script_at,
                                 srv_get_attribute)
from pyvc.contracts import Any, Bool, Bytes, BytesN, Callback, ConcList, Inst, Int, IntRange, ListOf, OneOf, OrUnbound, TupleOf, bound, contract, forall, implies, model

ENVIRONMENT = [
    'the length of b\'\'.join(xs) for a list of symbolic length is the sum of the lengths of its elements (model of the '
    'built-in in pyvc/ext_c10.py: recursive definition on the last element); its content is uninterpreted',
    'UUID.to_pdu_bytes is 2 octets for a 16-bit UUID and 16 octets otherwise (bumble/core.py, modelled not verified)',
]

PDU_INLINE = ['ATT_PDU.__bytes__', 'ATT_PDU.payload', 'HCI_Object.dict_to_bytes', 'HCI_Object.serialize_field', 'bumble.hci:*<lambda>', 'bumble.att:*<lambda>'] + ERR_INLINE


def size_response(ghost, bearer, response):
    """Server.send_response: the PDU is bytes(response) (real serialiser); remember its length and the bearer's MTU"""
    ghost.nresp = ghost.nresp + 1
    ghost.rlen = len(bytes(response))
    ghost.rmtu = bearer.att_mtu


model(
    'bumble.gatt_server:Server#c10s',
    fields=dict(attributes=ListOf(ATTR), max_mtu=IntRange(23, 0xFFFF)),
    methods={
        'get_attribute': Callback('get_attribute', effect=srv_get_attribute),
        'send_response': Callback('send_response', effect=size_response),
    },
)
SERVER_S = Inst('bumble.gatt_server:Server#c10s')
SIZE_GHOST = dict(GHOST, rlen=Int, rmtu=Int)
SIZE_MOD = MOD + ['ghost.rlen', 'ghost.rmtu']


def within_mtu(self, bearer, old, ghost):
    return [ghost.nresp == old.ghost.nresp + 1, ghost.rlen <= bearer.att_mtu]


SIZE_NAMES = ['one-response', 'response-within-att-mtu']


def wire2(entries):
    """octets of a list of (handle, value) entries on the wire: 2 + len(value) each"""
    return len(b''.join([struct.pack('<H', h) + v for h, v in entries]))


def read_by_type_inv(bearer, attributes, entry_size, pdu_space_available, old, ghost, _i):
    return [
        _i >= 0,
        ghost.nresp == old.ghost.nresp,
        ghost.nreads >= 0,
        pdu_space_available >= 0,
        forall(0, len(attributes), lambda j: 0 <= attributes[j][0] and attributes[j][0] <= 0xFFFF),
        wire2(attributes) == bearer.att_mtu - 2 - pdu_space_available,
        implies(len(attributes) > 0, bound(entry_size) and entry_size == 2 + len(attributes[0][1]) and entry_size <= 255),
    ]


def size_contract(name, request_model, **kw):
    target = f'bumble.gatt_server:Server.{name}'
    kw.setdefault('requires', lambda ghost: [ghost.nreads >= 0, ghost.nwrites >= 0, ghost.ngets >= 0])
    contract(
        target,
        key=target + '@C10size' + kw.pop('key_suffix', ''),
        prop='C10',
        profile='value',
        params=dict(self=SERVER_S, bearer=BEARER, request=Inst(request_model)),
        ghost=SIZE_GHOST,
        ensures=within_mtu,
        ensures_names=SIZE_NAMES,
        # the escapes of ATT_Error are part 1's findings: here only the sizes of what is sent
        raises={att.ATT_Error: None},
        modifies=SIZE_MOD,
        inline=PDU_INLINE,
        decorators_ok=RUN_IN_TASK,
        **kw,
    )


# ---------------------------------------------------------------------------
# the list-shaped responses parse their own payload back (for display) when they are constructed: total, given the
# entry length the server passes
# ---------------------------------------------------------------------------
def post_init_contract(cls_name, list_field, elem_t, requires, **fields):
    mname = f'bumble.att:{cls_name}#c10r'
    model(mname, fields=dict(fields, **{list_field: ListOf(elem_t)}))
    target = f'bumble.att:{cls_name}.__post_init__'
    contract(
        target,
        key=target + '@C10',
        prop='C10',
        params=dict(self=Inst(mname)),
        requires=requires,
        ensures=lambda self: [True],
        ensures_names=['returns'],
        raises={},  # no struct.error / IndexError: an exception here would escape the handler task unanswered
        modifies=[f'self.{list_field}'],
        invariants={0: lambda offset: [offset >= 0]},
    )
    return target + '@C10'


POST_INIT = {
    'ATT_Find_Information_Response': post_init_contract(
        'ATT_Find_Information_Response', 'information', TupleOf(Int, Bytes), None, format=Int, information_data=Bytes),
    'ATT_Find_By_Type_Value_Response': post_init_contract(
        'ATT_Find_By_Type_Value_Response', 'handles_information', TupleOf(Int, Int), None, handles_information_list=Bytes),
    # an entry is handle(2) + value: the declared entry length must cover the handle (0 = no entry at all)
    'ATT_Read_By_Type_Response': post_init_contract(
        'ATT_Read_By_Type_Response', 'attributes', TupleOf(Int, Bytes), lambda self: [self.length == 0 or self.length >= 2], length=Int, attribute_data_list=Bytes),
    'ATT_Read_By_Group_Type_Response': post_init_contract(
        'ATT_Read_By_Group_Type_Response', 'attributes', TupleOf(Int, Int, Bytes), lambda self: [self.length == 0 or self.length >= 4], length=Int, attribute_data_list=Bytes),
}


# ---------------------------------------------------------------------------
# the builders
# ---------------------------------------------------------------------------
size_contract(
    'on_att_read_by_type_request',
    'bumble.att:ATT_Read_By_Type_Request#c10',
    invariants={0: read_by_type_inv},
    loop_locals={0: dict(attributes=ListOf(TupleOf(Int, Bytes)), entry_size=OrUnbound(Int))},
    uses=[POST_INIT['ATT_Read_By_Type_Response']],
)


def wire4(entries):
    """octets of a list of (handle, end group handle, value) entries on the wire: 4 + len(value) each"""
    return len(b''.join([struct.pack('<HH', h, e) + v for h, e, v in entries]))


def first_value_len(attributes):
    return len(attributes[0][2]) if len(attributes) > 0 else 0


def read_by_group_type_inv(bearer, attributes, pdu_space_available, old, ghost, _i):
    return [
        _i >= 0,
        ghost.nresp == old.ghost.nresp,
        ghost.nreads >= 0,
        pdu_space_available >= 0,
        forall(0, len(attributes), lambda j: 0 <= attributes[j][0] and attributes[j][0] <= 0xFFFF and 0 <= attributes[j][1] and attributes[j][1] <= 0xFFFF),
        wire4(attributes) == bearer.att_mtu - 2 - pdu_space_available,
        first_value_len(attributes) <= 251,
    ]


size_contract(
    'on_att_read_by_group_type_request',
    'bumble.att:ATT_Read_By_Group_Type_Request#c10',
    invariants={0: read_by_group_type_inv},
    loop_locals={0: dict(attributes=ListOf(TupleOf(Int, Int, Bytes)))},
    uses=[POST_INIT['ATT_Read_By_Group_Type_Response']],
)


def read_multiple_inv(bearer, values, pdu_space_available, old, ghost, _i):
    return [
        _i >= 0,
        ghost.nresp == old.ghost.nresp,
        ghost.nreads >= 0,
        ghost.ngets >= 0,
        pdu_space_available >= 0,
        len(b''.join(values)) == bearer.att_mtu - 1 - pdu_space_available,
    ]


size_contract(
    'on_att_read_multiple_request',
    'bumble.att:ATT_Read_Multiple_Request#c10',
    invariants={0: read_multiple_inv},
    loop_locals={0: dict(values=ListOf(Bytes))},
)


def wire_lv(entries):
    """octets of a Length Value Tuple List: 2 + len(value) each (Vol 3 Part F 3.4.4.12)"""
    return len(b''.join([struct.pack('<H', n) + v for n, v in entries]))


def read_multiple_variable_inv(bearer, length_value_tuple_list, pdu_space_available, old, ghost, _i):
    return [
        _i >= 0,
        ghost.nresp == old.ghost.nresp,
        ghost.nreads >= 0,
        ghost.ngets >= 0,
        pdu_space_available >= 0,
        forall(0, len(length_value_tuple_list), lambda j: 0 <= length_value_tuple_list[j][0] and length_value_tuple_list[j][0] <= 0xFFFF),
        wire_lv(length_value_tuple_list) == bearer.att_mtu - 1 - pdu_space_available,
    ]


size_contract(
    'on_att_read_multiple_variable_request',
    'bumble.att:ATT_Read_Multiple_Variable_Request#c10',
    # Vol 3 Part F 3.2.9: an attribute value is at most 512 octets (its length is sent in 16 bits)
    requires=lambda ghost: [ghost.nreads >= 0, ghost.nwrites >= 0, ghost.ngets >= 0, 0 <= ghost.vmax and ghost.vmax <= 512],
    invariants={0: read_multiple_variable_inv},
    loop_locals={0: dict(length_value_tuple_list=ListOf(TupleOf(Int, Bytes)))},
)

for _name in ('on_att_read_request', 'on_att_read_blob_request', 'on_att_write_request', 'on_att_exchange_mtu_request'):
    size_contract(_name, f'bumble.att:{dict((n, r) for n, t, r in HANDLERS)[_name].__name__}#c10')


# bounded witness (NOT part of the proof): the same handler on a request naming exactly two handles, both found and
# readable, with values of 10 and 20 octets and any ATT_MTU -- the loop is unrolled, nothing is abstracted, so a violation of the size bound comes with an exact,
# replayable counter-model
def two_read(ghost, bearer):
    ghost.nreads = ghost.nreads + 1
    if ghost.nreads == 1:
        return ghost.v0
    return ghost.v1


model('bumble.att:Attribute#c10two', fields={}, methods={'read_value': Callback('read_value', effect=two_read, is_async=True)})
model(
    'bumble.gatt_server:Server#c10two',
    fields={},
    methods={
        'get_attribute': Callback('get_attribute', effect=lambda ghost, handle: ghost.attr),
        'send_response': Callback('send_response', effect=size_response),
    },
)
model('bumble.att:ATT_Read_Multiple_Variable_Request#c10two', fields=dict(set_of_handles=ConcList(IntRange(0, 0xFFFF), 2)))
T_RMV = 'bumble.gatt_server:Server.on_att_read_multiple_variable_request'
contract(
    T_RMV,
    key=T_RMV + '@C10size/two-handles',
    prop='C10',
    params=dict(self=Inst('bumble.gatt_server:Server#c10two'), bearer=Inst('bumble.device:Connection#c10'), request=Inst('bumble.att:ATT_Read_Multiple_Variable_Request#c10two')),
    ghost=dict(nresp=Int, rlen=Int, rmtu=Int, nreads=Int, v0=BytesN(10), v1=BytesN(20), attr=Inst('bumble.att:Attribute#c10two')),
    requires=lambda ghost: [ghost.nreads == 0],
    ensures=within_mtu,
    ensures_names=SIZE_NAMES,
    raises={},
    modifies=['ghost.nresp', 'ghost.rlen', 'ghost.rmtu', 'ghost.nreads'],
    inline=PDU_INLINE,
    decorators_ok=RUN_IN_TASK,
    note='bounded stand-in (2 handles, both readable, values of 10 and 20 octets, any ATT_MTU): detection and replay only',
)
