"""C09 — outgoing LE credit-based connection requests: connect() and the response handler.  Identifiers are allocated
per connection, so a pending request (and the answer to it) belongs to one connection: signalling on one link must
neither block connect() on another link nor consume another link's pending request."""
import asyncio

from bumble import core, l2cap
from pyvc.contracts import (Any, Bool, Bytes, Callback, Const, Event, Inst, Int, IntRange, ListOf, Opaque, Opt, TupleOf,
                            contract, exists, forall, iff, implies, ite, lemma, model, same)
from pyvc.ext_c09 import (PoolOf, RefT, allocated, dict_same, dict_same_except, forall_elems, forall_items, forall_objs,
                          is_instance_of, is_new, now, obj_same, pool_new, pool_same_except)

from contracts.c09_close import CHAN_MOD, HEAP_LOOP, LE_INLINE, LOOP_STUBS, NEXT_ID
from contracts.c09_tables import (CHAN, HEAP, LE_CONNECTED, LE_CONNECTING, LE_ERROR, LE_INIT, MGR, PENDING, PER_CONN_REQUESTS, entry, is_le,
                                  last_id, pending_request, wf, wf_requests)

ENVIRONMENT = [
    'an LE connection carries only LE credit-based channels (the LE signalling handlers are verified for tables whose '
    'entries on that connection are LeCreditBasedChannel objects)',
]
REQ_MOD = CHAN_MOD + ['ghost.reqs', 'ghost.rdicts', 'ghost.hdicts'] + (['ghost.rodicts'] if PER_CONN_REQUESTS else [])
CONNECT_INLINE = LE_INLINE + ['L2CAP_LE_Credit_Based_Connection_Request.__init__']


def next_id(mgr, h):
    k = last_id(mgr.identifiers, h)
    return ite(k >= 255, 1, k + 1)


contract(
    'bumble.l2cap:LeCreditBasedChannel.connect',
    prop='C09',
    params=dict(self=CHAN),
    ghost=HEAP_LOOP,
    requires=lambda self, ghost: [is_le(self), self.connection_result is None or self.connection_result.st != PENDING] + wf_requests(self.manager, ghost),
    # connect() is refused only for a reason that lies in this channel or in its own connection: the channel is not
    # new, or the identifier it would use is still taken by a pending request *of the same connection*
    raises={
        core.InvalidStateError: lambda self, old, ghost: [
            old.self.state != LE_INIT or pending_request(old.self.manager, old.ghost, self.connection.handle, next_id(old.self.manager, self.connection.handle)) is not None,
        ]
    },
    # at the await: the request is out and registered for this connection, and the awaited future is the pending future
    # stored in connection_result -- which on_connection_response() and abort() complete
    await_inv=lambda self, connection_result, identifier, old, ghost: [
        self.state == LE_CONNECTING,
        same(self.connection_result, connection_result) and connection_result.st == PENDING,
        ghost.frames == old.ghost.frames + 1,
        pending_request(self.manager, ghost, self.connection.handle, identifier) is not None,
        pending_request(self.manager, ghost, self.connection.handle, identifier).source_cid == self.source_cid if pending_request(self.manager, ghost, self.connection.handle, identifier) is not None else False,
    ],
    uses=[NEXT_ID],
    inline=CONNECT_INLINE,
    stubs=LOOP_STUBS,
    modifies=REQ_MOD,
)


# ---------------------------------------------------------------------------
# the answer to a connection request
# ---------------------------------------------------------------------------
LE_RSP_OK = int(l2cap.L2CAP_LE_Credit_Based_Connection_Response.Result.CONNECTION_SUCCESSFUL)
model(
    'bumble.l2cap:L2CAP_LE_Credit_Based_Connection_Response#c09',
    fields=dict(identifier=IntRange(0, 255), destination_cid=IntRange(0, 0xFFFF), mtu=IntRange(0, 0xFFFF), mps=IntRange(0, 0xFFFF), initial_credits=IntRange(0, 0xFFFF), result=IntRange(0, 0xFFFF)),
)
LE_CONN_RSP = Inst('bumble.l2cap:L2CAP_LE_Credit_Based_Connection_Response#c09')
RSP_INLINE = LE_INLINE + ['L2capError.__init__', 'BaseError.__init__']


def answered(self, response, old, ghost):
    """effect of a connection response on the channel that waits for it"""
    waiting = old.self.connection_result is not None
    ok = response.result == LE_RSP_OK
    return [
        implies(not waiting, pool_same_except(ghost.chans, old.ghost.chans, []) and pool_same_except(ghost.futs, old.ghost.futs, [])),
        implies(waiting and ok, self.state == LE_CONNECTED and self.destination_cid == response.destination_cid),
        implies(waiting and not ok, self.state == LE_ERROR),
        # connect() is released either way
        implies(waiting, self.connection_result is None and now(old.self.connection_result).st != PENDING),
        same(self.manager, old.self.manager) and same(self.connection, old.self.connection) and self.source_cid == old.self.source_cid,
        self.disconnection_result is None or same(self.disconnection_result, old.self.disconnection_result),
        pool_same_except(ghost.chans, old.ghost.chans, [self]),
        pool_same_except(ghost.futs, old.ghost.futs, [old.self.connection_result]),
        # the tables are not touched here
        pool_same_except(ghost.cdicts, old.ghost.cdicts, []),
    ]


ANSWERED_NAMES = ['unexpected-response-ignored', 'accepted-connected', 'refused-error-state', 'connect-waiter-released', 'identity-kept', 'no-new-future',
                  'other-channels-untouched', 'other-futures-untouched', 'tables-untouched']
RSP_MOD = ['ghost.chans', 'ghost.futs', 'ghost.cdicts', 'ghost.emitted']

contract(
    'bumble.l2cap:LeCreditBasedChannel.on_connection_response',
    prop='C09',
    params=dict(self=CHAN, response=LE_CONN_RSP),
    ghost=HEAP,
    requires=lambda self: [is_le(self), self.connection_result is None or self.connection_result.st == PENDING],
    ensures=answered,
    ensures_names=ANSWERED_NAMES,
    inline=RSP_INLINE,
    modifies=RSP_MOD,
)


def requests_pool(ghost):
    return ghost.rodicts if PER_CONN_REQUESTS else ghost.rdicts


def response_post(self, connection, response, old, ghost):
    h = connection.handle
    r0 = pending_request(old.self, old.ghost, h, response.identifier)
    if r0 is None:
        # no request with this identifier is pending on this connection: the response is ignored -- in particular it
        # does not consume a request that went out on another connection
        return [
            pool_same_except(ghost.chans, old.ghost.chans, []),
            pool_same_except(ghost.futs, old.ghost.futs, []),
            pool_same_except(ghost.rdicts, old.ghost.rdicts, []),
            forall(0, 256, lambda k: forall(0, 0x10000, lambda h2: same(pending_request(self, ghost, h2, k), pending_request(old.self, old.ghost, h2, k)))),
        ]
    c0 = entry(old.self.channels, h, r0.source_cid)
    return [
        # the request is consumed, every other pending request stays
        pending_request(self, ghost, h, response.identifier) is None,
        forall(0, 256, lambda k: forall(0, 0x10000, lambda h2: (k == response.identifier and h2 == h) or same(pending_request(self, ghost, h2, k), pending_request(old.self, old.ghost, h2, k)))),
        # only the channel that sent it sees the response
        pool_same_except(ghost.chans, old.ghost.chans, [c0]),
        pool_same_except(ghost.cdicts, old.ghost.cdicts, []),
    ]


contract(
    'bumble.l2cap:ChannelManager.on_l2cap_le_credit_based_connection_response',
    prop='C09',
    params=dict(self=MGR, connection=RefT('conns'), _cid=Int, response=LE_CONN_RSP),
    ghost=HEAP,
    requires=lambda self, connection, ghost: wf(self, None) + wf_requests(self, ghost) + [
        # LE signalling arrives on an LE link, and an LE link carries only LE credit-based channels
        implies(connection.handle in self.channels, forall_items(self.channels[connection.handle], lambda k, c: is_le(c))),
        # a registered LE channel holds no completed connect() future
        forall_items(self.channels, lambda h, d: forall_items(d, lambda k, c: not is_le(c) or c.connection_result is None or c.connection_result.st == PENDING)),
    ],
    ensures=response_post,
    uses=['bumble.l2cap:ChannelManager.find_channel', 'bumble.l2cap:LeCreditBasedChannel.on_connection_response'],
    modifies=RSP_MOD + ['ghost.rdicts'] + (['ghost.rodicts'] if PER_CONN_REQUESTS else []),
)
