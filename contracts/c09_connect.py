"""C09 — outgoing LE credit-based connection requests: connect() and the response handler.  Identifiers are allocated
per connection, so a pending request (and the answer to it) belongs to one connection: signalling on one link must
neither block connect() on another link nor consume another link's pending request."""
import asyncio

from bumble import core, l2cap
from pyvc.contracts import (Any, Bool, Bytes, Callback, Const, Event, Inst, Int, IntRange, ListOf, Opaque, Opt, TupleOf,
                            contract, exists, forall, iff, implies, ite, lemma, model, same)
from pyvc.ext_c09 import (PoolOf, RefT, allocated, dict_same, dict_same_except, forall_elems, forall_items, forall_objs,
                          is_instance_of, is_new, now, obj_same, pool_new, pool_same_except)

from contracts.c09_close import CHAN_MOD, HEAP_LOOP, LE_INLINE, LOOP_STUBS, NEXT_ID
from contracts.c09_tables import (inner, CHAN, HEAP, LE_CONNECTED, LE_CONNECTING, LE_ERROR, LE_INIT, MGR, PENDING, PER_CONN_REQUESTS, entry, is_le,
                                  last_id, pending_request, wf, wf_requests)

ENVIRONMENT = [
    'an LE connection carries only LE credit-based channels (the LE signalling handlers are verified for tables whose '
    'entries on that connection are LeCreditBasedChannel objects)',
    'the peer obeys the CID rules: the destination CID of a successful LE connection response is not in use on that connection',
    'create_le_credit_based_channel is verified against a *summary* of a completed connect() (contract connect@completed, '
    'assumed, not proved): the events considered while connect() is suspended are the ones that complete it -- the response of '
    'the peer (optionally followed by a disconnection request of the peer before the task resumes), the loss of the link, the '
    'cancellation by the caller -- and no other channel object is created meanwhile',
]
REQ_MOD = CHAN_MOD + ['ghost.reqs', 'ghost.rdicts', 'ghost.hdicts'] + (['ghost.rodicts'] if PER_CONN_REQUESTS else [])
CONNECT_INLINE = LE_INLINE + ['L2CAP_LE_Credit_Based_Connection_Request.__init__']


def table_same_but(tbl, tbl0, c):
    """the table has the entries it had (same objects); a new entry, if any, holds the channel c"""
    return forall_items(tbl0, lambda h2, d: forall_items(d, lambda k, x: same(entry(tbl, h2, k), x))) and forall_items(tbl, lambda h2, d: forall_items(d, lambda k, x: same(x, c) or same(entry(tbl0, h2, k), x)))


def next_id(mgr, h):
    k = last_id(mgr.identifiers, h)
    return ite(k >= 255, 1, k + 1)


contract(
    'bumble.l2cap:LeCreditBasedChannel.connect',
    prop='C09',
    params=dict(self=CHAN),
    ghost=HEAP_LOOP,
    requires=lambda self, ghost: [is_le(self), self.connection_result is None or self.connection_result.st != PENDING] + wf_requests(self.manager, ghost),
    # connect() is refused only for a reason that lies in this channel or in its own connection: the channel is not
    # new, or the identifier it would use is still taken by a pending request *of the same connection*
    raises={
        core.InvalidStateError: lambda self, old, ghost: [
            old.self.state != LE_INIT or pending_request(old.self.manager, old.ghost, self.connection.handle, next_id(old.self.manager, self.connection.handle)) is not None,
        ]
    },
    # at the await: the request is out and registered for this connection, and the awaited future is the pending future
    # stored in connection_result -- which on_connection_response() and abort() complete
    await_inv=lambda self, connection_result, identifier, old, ghost: [
        self.state == LE_CONNECTING,
        same(self.connection_result, connection_result) and connection_result.st == PENDING,
        ghost.frames == old.ghost.frames + 1,
        pending_request(self.manager, ghost, self.connection.handle, identifier) is not None,
        pending_request(self.manager, ghost, self.connection.handle, identifier).source_cid == self.source_cid if pending_request(self.manager, ghost, self.connection.handle, identifier) is not None else False,
    ],
    uses=[NEXT_ID],
    inline=CONNECT_INLINE,
    stubs=LOOP_STUBS,
    modifies=REQ_MOD,
)


# ---------------------------------------------------------------------------
# the answer to a connection request
# ---------------------------------------------------------------------------
LE_RSP_OK = int(l2cap.L2CAP_LE_Credit_Based_Connection_Response.Result.CONNECTION_SUCCESSFUL)
model(
    'bumble.l2cap:L2CAP_LE_Credit_Based_Connection_Response#c09',
    fields=dict(identifier=IntRange(0, 255), destination_cid=IntRange(0, 0xFFFF), mtu=IntRange(0, 0xFFFF), mps=IntRange(0, 0xFFFF), initial_credits=IntRange(0, 0xFFFF), result=IntRange(0, 0xFFFF)),
)
LE_CONN_RSP = Inst('bumble.l2cap:L2CAP_LE_Credit_Based_Connection_Response#c09')
RSP_INLINE = LE_INLINE + ['L2capError.__init__', 'BaseError.__init__']


def answered(self, response, old, ghost):
    """effect of a connection response on the channel that waits for it"""
    waiting = old.self.connection_result is not None
    ok = response.result == LE_RSP_OK
    return [
        implies(not waiting, pool_same_except(ghost.chans, old.ghost.chans, []) and pool_same_except(ghost.futs, old.ghost.futs, [])),
        implies(waiting and ok, self.state == LE_CONNECTED and self.destination_cid == response.destination_cid),
        implies(waiting and not ok, self.state == LE_ERROR),
        # connect() is released either way
        implies(waiting, self.connection_result is None and now(old.self.connection_result).st != PENDING),
        same(self.manager, old.self.manager) and same(self.connection, old.self.connection) and self.source_cid == old.self.source_cid,
        self.disconnection_result is None or same(self.disconnection_result, old.self.disconnection_result),
        pool_same_except(ghost.chans, old.ghost.chans, [self]),
        pool_same_except(ghost.futs, old.ghost.futs, [old.self.connection_result]),
        # the tables are not touched here
        pool_same_except(ghost.cdicts, old.ghost.cdicts, []),
    ]


ANSWERED_NAMES = ['unexpected-response-ignored', 'accepted-connected', 'refused-error-state', 'connect-waiter-released', 'identity-kept', 'no-new-future',
                  'other-channels-untouched', 'other-futures-untouched', 'tables-untouched']
RSP_MOD = ['ghost.chans', 'ghost.futs', 'ghost.cdicts', 'ghost.emitted']

contract(
    'bumble.l2cap:LeCreditBasedChannel.on_connection_response',
    prop='C09',
    params=dict(self=CHAN, response=LE_CONN_RSP),
    ghost=HEAP,
    requires=lambda self: [is_le(self), self.connection_result is None or self.connection_result.st == PENDING],
    ensures=answered,
    ensures_names=ANSWERED_NAMES,
    inline=RSP_INLINE,
    modifies=RSP_MOD,
)


def requests_pool(ghost):
    return ghost.rodicts if PER_CONN_REQUESTS else ghost.rdicts


def response_post(self, connection, response, old, ghost):
    h = connection.handle
    r0 = pending_request(old.self, old.ghost, h, response.identifier)
    if r0 is None:
        # no request with this identifier is pending on this connection: the response is ignored -- in particular it
        # does not consume a request that went out on another connection
        return [
            pool_same_except(ghost.chans, old.ghost.chans, []),
            pool_same_except(ghost.futs, old.ghost.futs, []),
            pool_same_except(ghost.rdicts, old.ghost.rdicts, []),
            forall(0, 256, lambda k: forall(0, 0x10000, lambda h2: same(pending_request(self, ghost, h2, k), pending_request(old.self, old.ghost, h2, k)))),
        ]
    c0 = entry(old.self.channels, h, r0.source_cid)
    c = now(c0)
    le_h = inner(self.le_coc_channels, h)
    return [
        # the request is consumed, every other pending request stays
        pending_request(self, ghost, h, response.identifier) is None,
        forall(0, 256, lambda k: forall(0, 0x10000, lambda h2: (k == response.identifier and h2 == h) or same(pending_request(self, ghost, h2, k), pending_request(old.self, old.ghost, h2, k)))),
        # only the channel that sent it sees the response
        pool_same_except(ghost.chans, old.ghost.chans, [c0]),
        # channels[..] is untouched; le_coc_channels may only gain the entry of this channel
        table_same_but(self.channels, old.self.channels, None),
        table_same_but(self.le_coc_channels, old.self.le_coc_channels, c),
        # a channel that is connected now can be addressed by the peer at once (credits, disconnection): it is registered
        # under its destination CID when this handler returns, not only when the task that awaits connect() resumes
        (implies(c.state == LE_CONNECTED and old.self.channels is not None and c0.connection_result is not None, same(entry(self.le_coc_channels, h, c.destination_cid), c))) if c0 is not None else True,
    ] + wf(self, None)


contract(
    'bumble.l2cap:ChannelManager.on_l2cap_le_credit_based_connection_response',
    prop='C09',
    params=dict(self=MGR, connection=RefT('conns'), _cid=Int, response=LE_CONN_RSP),
    ghost=HEAP,
    requires=lambda self, connection, response, ghost: wf(self, None) + wf_requests(self, ghost) + [
        # LE signalling arrives on an LE link, and an LE link carries only LE credit-based channels
        implies(connection.handle in self.channels, forall_items(self.channels[connection.handle], lambda k, c: is_le(c))),
        # a registered LE channel holds no completed connect() future, and only a channel that is connecting waits in connect()
        forall_items(self.channels, lambda h, d: forall_items(d, lambda k, c: not is_le(c) or c.connection_result is None or (c.connection_result.st == PENDING and c.state == LE_CONNECTING))),
        # the peer assigns a destination CID that it does not use for another channel of this connection (Vol 3 Part A 4.23)
        response.result != LE_RSP_OK or not (connection.handle in self.le_coc_channels and response.destination_cid in self.le_coc_channels[connection.handle]),
    ],
    ensures=response_post,
    uses=['bumble.l2cap:ChannelManager.find_channel', 'bumble.l2cap:LeCreditBasedChannel.on_connection_response'],
    modifies=RSP_MOD + ['ghost.rdicts', 'ghost.odicts'] + (['ghost.rodicts'] if PER_CONN_REQUESTS else []),
)


# ---------------------------------------------------------------------------
# create_le_credit_based_channel: the channel is registered when the function returns it and is not left behind when it fails
# ---------------------------------------------------------------------------
from contracts.c09_tables import LE_HI, LE_LO, WF_NAMES, le_open  # noqa: E402

model('bumble.l2cap:LeCreditBasedChannelSpec#c09', fields=dict(psm=Opt(IntRange(1, 0xFFFF)), mtu=IntRange(23, 65535), mps=IntRange(23, 65533), max_credits=IntRange(1, 65535)))
LE_SPEC = Inst('bumble.l2cap:LeCreditBasedChannelSpec#c09')


def same_tables(ghost, old):
    return pool_same_except(ghost.cdicts, old.ghost.cdicts, []) and pool_same_except(ghost.odicts, old.ghost.odicts, [])


def kept(self, old, ghost):
    return [
        same(self.manager, old.self.manager) and same(self.connection, old.self.connection) and self.source_cid == old.self.source_cid and is_le(self),
        # (no other channel object is created while this connect() is suspended)
        forall_objs(ghost.chans, lambda o: allocated(o, old.ghost.chans)),
    ]


def completed_ok(self, old, ghost):
    """connect() returned: the peer accepted.  Either nothing else happened (the channel is connected and where create put
    it), or the peer closed the channel again before this task resumed (the invariant holds, the channel is gone)"""
    h = self.connection.handle
    mgr, mgr0 = self.manager, old.self.manager
    quiet = self.state == LE_CONNECTED and table_same_but(mgr.channels, mgr0.channels, None) and table_same_but(mgr.le_coc_channels, mgr0.le_coc_channels, self) and pool_same_except(ghost.chans, old.ghost.chans, [self])
    closed_again = self.state == l2cap.LeCreditBasedChannel.State.DISCONNECTED and entry(mgr.channels, h, self.source_cid) is None and not same(entry(mgr.le_coc_channels, h, self.destination_cid), self)
    return kept(self, old, ghost) + wf(self.manager, None) + [quiet or closed_again]


def completed_refused(self, old, ghost):
    return kept(self, old, ghost) + [same_tables(ghost, old), pool_same_except(ghost.chans, old.ghost.chans, [self]), self.state == LE_ERROR]


def completed_cancelled(self, old, ghost):
    """connect() was cancelled: by its caller (nothing else changed), or because the link was lost (the tables of the
    connection were dropped by on_disconnection; the dropped inner dict keeps its entries)"""
    h = self.connection.handle
    by_caller = same_tables(ghost, old) and pool_same_except(ghost.chans, old.ghost.chans, [self])
    link_lost = h not in self.manager.channels and h not in self.manager.le_coc_channels and pool_same_except(ghost.cdicts, old.ghost.cdicts, [])
    return kept(self, old, ghost) + wf(self.manager, None) + [by_caller or link_lost]


# summary of a *completed* connect() for its caller (assumed: it spans a suspension, see ENVIRONMENT)
contract(
    'bumble.l2cap:LeCreditBasedChannel.connect',
    key='bumble.l2cap:LeCreditBasedChannel.connect@completed',
    params=dict(self=CHAN),
    ghost=HEAP_LOOP,
    requires=lambda self, ghost: [is_le(self)] + wf(self.manager, None),
    ensures=completed_ok,
    raises={
        # refused before anything was sent: nothing changed but the identifier counter
        core.InvalidStateError: lambda self, old, ghost: [pool_same_except(ghost.chans, old.ghost.chans, []), same_tables(ghost, old)],
        l2cap.L2capError: completed_refused,
        asyncio.CancelledError: completed_cancelled,
    },
    returns=CHAN,
    modifies=REQ_MOD + ['ghost.odicts'],
)


def not_left_behind(self, connection, old, ghost):
    """a failed create leaves no channel of its own in the table: every entry of channels[h] was there before or ... is
    registered by someone else; concretely the slot it took is not occupied by a channel created here"""
    h = connection.handle
    return [forall_items(self.channels, lambda h2, d: forall_items(d, lambda k, c: not is_new(c, old.ghost.chans)))]


contract(
    'bumble.l2cap:ChannelManager.create_le_credit_based_channel',
    prop='C09',
    params=dict(self=MGR, connection=RefT('conns'), spec=LE_SPEC),
    ghost=HEAP_LOOP,
    requires=lambda self, ghost: wf(self, None),
    # the returned channel is registered under both identifiers and the tables are well formed (so it is open)
    ensures=lambda self, connection, res, old, ghost: [
        is_new(res, old.ghost.chans) and same(res.connection, connection) and same(res.manager, self),
        # a channel that the peer closed again while this task was waiting to resume is not (re-)entered into the table
        le_open(res) or not same(entry(self.le_coc_channels, connection.handle, res.destination_cid), res),
    ] + wf(self, None),
    ensures_names=['new-channel-of-this-connection', 'closed-channel-not-registered'] + WF_NAMES,
    raises={
        core.OutOfResourcesError: lambda self, connection, old, ghost: [pool_same_except(ghost.chans, old.ghost.chans, [])],
        core.InvalidArgumentError: lambda self, connection, old, ghost: [pool_same_except(ghost.chans, old.ghost.chans, [])],
        core.InvalidStateError: not_left_behind,
        l2cap.L2capError: not_left_behind,
        asyncio.CancelledError: not_left_behind,
    },
    uses=['bumble.l2cap:ChannelManager.find_free_le_cid', 'bumble.l2cap:LeCreditBasedChannel.connect@completed'],
    inline=['LeCreditBasedChannel.__init__'],
    assumes=['LeCreditBasedChannel.connect@completed: summary of a completed connect() across its suspension (other tasks preserve the table invariant)'],
    modifies=REQ_MOD + ['ghost.odicts', 'ghost.queues'],
)
