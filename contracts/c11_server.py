"""C11 part 2 -- the eight reading / writing handlers of gatt_server.Server against the gate contracts of
contracts/c11_att.py.

The attribute seen by a handler (model Attribute#h) has **no `value` field**: the only way a handler can get at
a value, or change one, is Attribute.read_value / Attribute.write_value, which are replaced by their contracts
(callee views = the clauses verified in c11_att.py + ghost counters of the outcomes).  A handler that touched
`attribute.value` directly would hit a non-existing field (AttributeError path -> failing `exc` obligation).

  ghost.nok / ghost.nref    read_value returned a value / refused        (a value is "disclosed" only through nok)
  ghost.wok / ghost.wref    write_value wrote / refused                  (a value is "written" only through wok)
  ghost.nresp, rop, rerr..  what Server.send_response was given (recorded callback), and for whom
"""
from bumble import att, core, gatt, l2cap
from contracts.c11_att import BEARER, CONN, authenticated, conn_of, encrypted
from pyvc.contracts import Any, Bool, Bytes, Callback, ConcList, Const, Inst, Int, IntRange, ListOf, OneOf, Opt, TupleOf, contract, implies, model
from spec.att_perm import (ATT_ERROR_RSP, ATT_FIND_BY_TYPE_VALUE_RSP, ATT_READ_BLOB_RSP, ATT_READ_BY_GROUP_TYPE_RSP, ATT_READ_BY_TYPE_RSP, ATT_READ_MULTIPLE_RSP,
                           ATT_READ_RSP, ATT_WRITE_RSP, ERR_ATTRIBUTE_NOT_FOUND, ERR_INVALID_ATTRIBUTE_VALUE_LENGTH, ERR_INVALID_HANDLE, is_permission_error,
                           may_read, may_write, read_refusal_code_ok, write_refusal_code_ok)

ENVIRONMENT = [
    '@AsyncRunner.run_in_task() on the handlers is ignored: the body is verified as the coroutine it is; an exception '
    'escaping it is logged by the runner and NO response is sent (so an escaping ATT_Error is a failing obligation)',
    'Server.get_attribute (handle -> attribute or None) and Server.send_response (encode + send on the bearer) are recorded '
    'callbacks: the ATT codec and the transport are C10/C18/C05',
    'callee views of Attribute.read_value / write_value used by the handlers = the clauses verified in c11_att.py '
    '(normal return => permitted; refusal => ATT_Error with att_handle and a matching code) + ghost counters of the outcome '
    '(definitional: incremented exactly on that outcome) + the call-site obligation that the bearer passed is the '
    'bearer of the request; the value returned is an arbitrary byte string',
    'the __post_init__ of the list-shaped response PDUs (they parse their own payload back into a python list for '
    'display) are not verified: assumed to return normally and to set only that derived field',
    'attribute types are UUID objects compared with the real UUID.__eq__ (on uuid_128_bytes)',
]

RUN_IN_TASK = ['utils.AsyncRunner.run_in_task()']


# ---------------------------------------------------------------------------
# attributes as the handlers see them
# ---------------------------------------------------------------------------
model('bumble.core:UUID#c11', fields=dict(uuid_128_bytes=Bytes))
UUID_T = Inst('bumble.core:UUID#c11')
model(
    'bumble.att:Attribute#h',
    fields=dict(handle=IntRange(0, 0xFFFF), end_group_handle=IntRange(0, 0xFFFF), permissions=IntRange(0, 0xFF), type=UUID_T),
)
ATTR_H = Inst('bumble.att:Attribute#h')


def readable_for(attribute, bearer):
    return may_read(attribute.permissions, encrypted(bearer), authenticated(bearer))


def writable_for(attribute, bearer):
    return may_write(attribute.permissions, encrypted(bearer), authenticated(bearer))


# -- callee views of the two gates --------------------------------------------
GATE_COUNTERS = dict(nok=Int, nref=Int, wok=Int, wref=Int)
T_READ_VALUE = 'bumble.att:Attribute.read_value'
T_WRITE_VALUE = 'bumble.att:Attribute.write_value'
V_READ = T_READ_VALUE + '@C11callee'
V_WRITE = T_WRITE_VALUE + '@C11callee'
EXC_FIELDS = {att.ATT_Error: dict(error_code=Int, att_handle=Int)}

contract(
    T_READ_VALUE,
    key=V_READ,
    params=dict(self=ATTR_H, bearer=BEARER),
    ghost=dict(GATE_COUNTERS, bid=Int),
    # call-site obligation: the access is judged against the link of the peer that made the request
    requires=lambda bearer, ghost: [bearer.g_id == ghost.bid],
    returns=Bytes,
    ensures=lambda self, bearer, old, ghost: [
        readable_for(self, bearer),  # c11_att: post#readable-and-link-meets-requirements
        ghost.nok == old.ghost.nok + 1 and ghost.nref == old.ghost.nref,
    ],
    raises={
        att.ATT_Error: lambda self, bearer, exc, old, ghost: [
            exc.att_handle == self.handle,  # c11_att: raises-ATT_Error#0
            implies(not readable_for(self, bearer), read_refusal_code_ok(exc.error_code, self.permissions, encrypted(bearer), authenticated(bearer))),  # #1
            0 <= exc.error_code and exc.error_code <= 0xFF,
            ghost.nref == old.ghost.nref + 1 and ghost.nok == old.ghost.nok,
        ]
    },
    modifies=['ghost.nok', 'ghost.nref'],
    exc_fields=EXC_FIELDS,
)

contract(
    T_WRITE_VALUE,
    key=V_WRITE,
    params=dict(self=ATTR_H, bearer=BEARER, value=Bytes),
    ghost=dict(GATE_COUNTERS, bid=Int),
    requires=lambda bearer, ghost: [bearer.g_id == ghost.bid],
    ensures=lambda self, bearer, old, ghost: [
        writable_for(self, bearer),  # c11_att: post#writable-and-link-meets-requirements
        ghost.wok == old.ghost.wok + 1 and ghost.wref == old.ghost.wref,
    ],
    raises={
        att.ATT_Error: lambda self, bearer, exc, old, ghost: [
            exc.att_handle == self.handle,
            implies(not writable_for(self, bearer), write_refusal_code_ok(exc.error_code, self.permissions, encrypted(bearer), authenticated(bearer))),
            0 <= exc.error_code and exc.error_code <= 0xFF,
            ghost.wref == old.ghost.wref + 1 and ghost.wok == old.ghost.wok,  # and (c11_att raises-ATT_Error#2) nothing was written
        ]
    },
    modifies=['ghost.wok', 'ghost.wref'],
    exc_fields=EXC_FIELDS,
)


# ---------------------------------------------------------------------------
# the server as the handlers see it
# ---------------------------------------------------------------------------
def srv_get_attribute(ghost, handle):
    assert handle == ghost.handle
    return ghost.attr


def srv_send_response(ghost, bearer, response):
    """records the response and checks that it goes to the peer that asked"""
    assert bearer.g_id == ghost.bid
    ghost.nresp = ghost.nresp + 1
    ghost.rop = response.op_code
    if isinstance(response, att.ATT_Error_Response):
        ghost.rerr = response.error_code
        ghost.rerr_handle = response.attribute_handle_in_error
        ghost.rerr_op = response.request_opcode_in_error


model(
    'bumble.gatt_server:Server#c11',
    fields={},
    methods={'get_attribute': Callback('get_attribute', effect=srv_get_attribute), 'send_response': Callback('send_response', effect=srv_send_response)},
)
SERVER_1 = Inst('bumble.gatt_server:Server#c11')
HANDLE = IntRange(0, 0xFFFF)
model('bumble.att:ATT_Read_Request#c11', fields=dict(attribute_handle=HANDLE))
model('bumble.att:ATT_Read_Blob_Request#c11', fields=dict(attribute_handle=HANDLE, value_offset=IntRange(0, 0xFFFF)))
model('bumble.att:ATT_Write_Request#c11', fields=dict(attribute_handle=HANDLE, attribute_value=Bytes))
model('bumble.att:ATT_Write_Command#c11', fields=dict(attribute_handle=HANDLE, attribute_value=Bytes))

RESP_GHOST = dict(nresp=Int, rop=Int, rerr=Int, rerr_handle=Int, rerr_op=Int)
RESP_MOD = ['ghost.nresp', 'ghost.rop', 'ghost.rerr', 'ghost.rerr_handle', 'ghost.rerr_op']
GATE_MOD = ['ghost.nok', 'ghost.nref', 'ghost.wok', 'ghost.wref']
ONE_GHOST = dict(GATE_COUNTERS, bid=Int, handle=Int, attr=Opt(ATTR_H), **RESP_GHOST)
ERR_INLINE = ['ATT_Error.__init__', 'BaseError.__init__']


def one_pre(bearer, request, ghost):
    return [ghost.bid == bearer.g_id, ghost.handle == request.attribute_handle]


def is_error(ghost, request, handle):
    """an ATT_ERROR_RSP for this request and this attribute handle"""
    return ghost.rop == ATT_ERROR_RSP and ghost.rerr_op == request.op_code and ghost.rerr_handle == handle


def read_one_post(data_opcode):
    def post(self, bearer, request, old, ghost):
        a = ghost.attr
        if a is None:
            return [
                ghost.nresp == old.ghost.nresp + 1,
                is_error(ghost, request, request.attribute_handle) and ghost.rerr == ERR_INVALID_HANDLE and ghost.nok == old.ghost.nok,
                True,
                True,
                True,
                ghost.wok == old.ghost.wok,
            ]
        ok = readable_for(a, bearer)
        return [
            ghost.nresp == old.ghost.nresp + 1,
            True,
            # statement: the value is obtained only if readable and the link meets the requirements ...
            implies(ghost.rop == data_opcode, ok),
            implies(ghost.nok != old.ghost.nok, ok),
            # ... a refused access is answered with the corresponding error and discloses nothing
            implies(
                not ok,
                is_error(ghost, request, request.attribute_handle)
                and read_refusal_code_ok(ghost.rerr, a.permissions, encrypted(bearer), authenticated(bearer))
                and ghost.nok == old.ghost.nok,
            ),
            ghost.wok == old.ghost.wok,
        ]

    return post


READ_ONE_NAMES = ['one-response', 'unknown-handle', 'value-only-if-permitted', 'disclosed-only-if-permitted', 'refusal-answered-undisclosed', 'nothing-written']

for _name, _req, _op in (
    ('on_att_read_request', 'bumble.att:ATT_Read_Request#c11', ATT_READ_RSP),
    ('on_att_read_blob_request', 'bumble.att:ATT_Read_Blob_Request#c11', ATT_READ_BLOB_RSP),
):
    contract(
        f'bumble.gatt_server:Server.{_name}',
        key=f'bumble.gatt_server:Server.{_name}@C11',
        prop='C11',
        params=dict(self=SERVER_1, bearer=BEARER, request=Inst(_req)),
        ghost=ONE_GHOST,
        requires=one_pre,
        ensures=read_one_post(_op),
        ensures_names=READ_ONE_NAMES,
        modifies=RESP_MOD + GATE_MOD,
        uses=[V_READ],
        inline=ERR_INLINE,
        decorators_ok=RUN_IN_TASK,
        note='@run_in_task ignored: the coroutine body is what is verified',
    )


def write_request_post(self, bearer, request, old, ghost):
    a = ghost.attr
    if a is None:
        return [
            ghost.nresp == old.ghost.nresp + 1,
            is_error(ghost, request, request.attribute_handle) and ghost.rerr == ERR_INVALID_HANDLE and ghost.wok == old.ghost.wok,
            True,
            True,
            True,
            ghost.nok == old.ghost.nok,
        ]
    ok = writable_for(a, bearer)
    return [
        ghost.nresp == old.ghost.nresp + 1,
        True,
        # statement: the value is changed only if writable and the link meets the write requirements
        implies(ghost.wok != old.ghost.wok, ok and ghost.wok == old.ghost.wok + 1),
        implies(ghost.rop == ATT_WRITE_RSP, ghost.wok == old.ghost.wok + 1),
        # a refused write is answered with the corresponding error (an over-long value may be refused for its
        # length first: Vol 3 Part F 3.4.5.2) and leaves the attribute unchanged
        implies(
            not ok,
            is_error(ghost, request, request.attribute_handle)
            and (write_refusal_code_ok(ghost.rerr, a.permissions, encrypted(bearer), authenticated(bearer)) or (ghost.rerr == ERR_INVALID_ATTRIBUTE_VALUE_LENGTH and len(request.attribute_value) > 512))
            and ghost.wok == old.ghost.wok,
        ),
        ghost.nok == old.ghost.nok,
    ]


WRITE_REQ_NAMES = ['one-response', 'unknown-handle', 'written-only-if-permitted', 'write-response-means-written', 'refusal-answered-unchanged', 'nothing-read']

contract(
    'bumble.gatt_server:Server.on_att_write_request',
    key='bumble.gatt_server:Server.on_att_write_request@C11',
    prop='C11',
    params=dict(self=SERVER_1, bearer=BEARER, request=Inst('bumble.att:ATT_Write_Request#c11')),
    ghost=ONE_GHOST,
    requires=one_pre,
    ensures=write_request_post,
    ensures_names=WRITE_REQ_NAMES,
    modifies=RESP_MOD + GATE_MOD,
    uses=[V_WRITE],
    inline=ERR_INLINE,
    decorators_ok=RUN_IN_TASK,
    note='@run_in_task ignored: the coroutine body is what is verified',
)


def write_command_post(self, bearer, request, old, ghost):
    a = ghost.attr
    if a is None:
        return [ghost.nresp == old.ghost.nresp, True, ghost.wok == old.ghost.wok, ghost.nok == old.ghost.nok]
    ok = writable_for(a, bearer)
    return [
        ghost.nresp == old.ghost.nresp,  # Vol 3 Part F 3.4.5.3: a command has no response, not even an error
        implies(ghost.wok != old.ghost.wok, ok and ghost.wok == old.ghost.wok + 1),
        implies(not ok, ghost.wok == old.ghost.wok),
        ghost.nok == old.ghost.nok,
    ]


contract(
    'bumble.gatt_server:Server.on_att_write_command',
    key='bumble.gatt_server:Server.on_att_write_command@C11',
    prop='C11',
    params=dict(self=SERVER_1, bearer=BEARER, request=Inst('bumble.att:ATT_Write_Command#c11')),
    ghost=ONE_GHOST,
    requires=one_pre,
    ensures=write_command_post,
    ensures_names=['no-response', 'written-only-if-permitted', 'refusal-leaves-unchanged', 'nothing-read'],
    modifies=RESP_MOD + GATE_MOD,
    uses=[V_WRITE],
    inline=ERR_INLINE,
    decorators_ok=RUN_IN_TASK,
    note='@run_in_task ignored: the coroutine body is what is verified',
)
