"""C11 part 2 -- the eight reading / writing handlers of gatt_server.Server against the gate contracts of
contracts/c11_att.py.

The attribute seen by a handler (model Attribute#h) has **no `value` field**: the only way a handler can get at
a value, or change one, is Attribute.read_value / Attribute.write_value, which are replaced by their contracts
(callee views = the clauses verified in c11_att.py + ghost counters of the outcomes).  A handler that touched
`attribute.value` directly would hit a non-existing field (AttributeError path -> failing `exc` obligation).

  ghost.nok / ghost.nref    read_value returned a value / refused        (a value is "disclosed" only through nok)
  ghost.wok / ghost.wref    write_value wrote / refused                  (a value is "written" only through wok)
  ghost.nresp, rop, rerr..  what Server.send_response was given (recorded callback), and for whom
"""
from bumble import att, core, gatt, l2cap
from contracts.c11_att import BEARER, CONN, authenticated, conn_of, encrypted
from pyvc.contracts import Any, Bool, Bytes, Callback, ConcList, Const, Inst, Int, IntRange, ListOf, OneOf, Opt, TupleOf, contract, implies, model
from spec.att_perm import (ATT_ERROR_RSP, ATT_FIND_BY_TYPE_VALUE_RSP, ATT_READ_BLOB_RSP, ATT_READ_BY_GROUP_TYPE_RSP, ATT_READ_BY_TYPE_RSP, ATT_READ_MULTIPLE_RSP,
                           ATT_READ_RSP, ATT_WRITE_RSP, ERR_ATTRIBUTE_NOT_FOUND, ERR_INVALID_ATTRIBUTE_VALUE_LENGTH, ERR_INVALID_HANDLE, is_permission_error,
                           may_read, may_write, read_refusal_code_ok, write_refusal_code_ok)

ENVIRONMENT = [
    '@AsyncRunner.run_in_task() on the handlers is ignored: the body is verified as the coroutine it is; an exception '
    'escaping it is logged by the runner and NO response is sent (so an escaping ATT_Error is a failing obligation)',
    'Server.get_attribute (handle -> attribute or None) and Server.send_response (encode + send on the bearer) are recorded '
    'callbacks: the ATT codec and the transport are C10/C18/C05',
    'callee views of Attribute.read_value / write_value used by the handlers = the clauses verified in c11_att.py '
    '(normal return => permitted; refusal => ATT_Error with att_handle and a matching code) + ghost counters of the outcome '
    '(definitional: incremented exactly on that outcome) + the call-site obligation that the bearer passed is the '
    'bearer of the request; the value returned is an arbitrary byte string',
    'the __post_init__ of the list-shaped response PDUs (they parse their own payload back into a python list for '
    'display) are not verified: assumed to return normally and to set only that derived field',
    'attribute types are UUID objects compared with the real UUID.__eq__ (on uuid_128_bytes)',
]

RUN_IN_TASK = ['utils.AsyncRunner.run_in_task()']


# ---------------------------------------------------------------------------
# attributes as the handlers see them
# ---------------------------------------------------------------------------
model('bumble.core:UUID#c11', fields=dict(uuid_128_bytes=Bytes))
UUID_T = Inst('bumble.core:UUID#c11')
model(
    'bumble.att:Attribute#h',
    fields=dict(handle=IntRange(0, 0xFFFF), end_group_handle=IntRange(0, 0xFFFF), permissions=IntRange(0, 0xFF), type=UUID_T),
)
ATTR_H = Inst('bumble.att:Attribute#h')


def readable_for(attribute, bearer):
    return may_read(attribute.permissions, encrypted(bearer), authenticated(bearer))


def writable_for(attribute, bearer):
    return may_write(attribute.permissions, encrypted(bearer), authenticated(bearer))


# -- callee views of the two gates --------------------------------------------
GATE_COUNTERS = dict(nok=Int, nref=Int, wok=Int, wref=Int)
T_READ_VALUE = 'bumble.att:Attribute.read_value'
T_WRITE_VALUE = 'bumble.att:Attribute.write_value'
V_READ = T_READ_VALUE + '@C11callee'
V_WRITE = T_WRITE_VALUE + '@C11callee'
EXC_FIELDS = {att.ATT_Error: dict(error_code=Int, att_handle=Int)}

contract(
    T_READ_VALUE,
    key=V_READ,
    params=dict(self=ATTR_H, bearer=BEARER),
    ghost=dict(GATE_COUNTERS, bid=Int),
    # call-site obligation: the access is judged against the link of the peer that made the request
    requires=lambda bearer, ghost: [bearer.g_id == ghost.bid],
    returns=Bytes,
    ensures=lambda self, bearer, old, ghost: [
        readable_for(self, bearer),  # c11_att: post#readable-and-link-meets-requirements
        ghost.nok == old.ghost.nok + 1 and ghost.nref == old.ghost.nref,
    ],
    raises={
        att.ATT_Error: lambda self, bearer, exc, old, ghost: [
            exc.att_handle == self.handle,  # c11_att: raises-ATT_Error#0
            implies(not readable_for(self, bearer), read_refusal_code_ok(exc.error_code, self.permissions, encrypted(bearer), authenticated(bearer))),  # #1
            0 <= exc.error_code and exc.error_code <= 0xFF,
            ghost.nref == old.ghost.nref + 1 and ghost.nok == old.ghost.nok,
        ]
    },
    modifies=['ghost.nok', 'ghost.nref'],
    exc_fields=EXC_FIELDS,
)

contract(
    T_WRITE_VALUE,
    key=V_WRITE,
    params=dict(self=ATTR_H, bearer=BEARER, value=Bytes),
    ghost=dict(GATE_COUNTERS, bid=Int),
    requires=lambda bearer, ghost: [bearer.g_id == ghost.bid],
    ensures=lambda self, bearer, old, ghost: [
        writable_for(self, bearer),  # c11_att: post#writable-and-link-meets-requirements
        ghost.wok == old.ghost.wok + 1 and ghost.wref == old.ghost.wref,
    ],
    raises={
        att.ATT_Error: lambda self, bearer, exc, old, ghost: [
            exc.att_handle == self.handle,
            implies(not writable_for(self, bearer), write_refusal_code_ok(exc.error_code, self.permissions, encrypted(bearer), authenticated(bearer))),
            0 <= exc.error_code and exc.error_code <= 0xFF,
            ghost.wref == old.ghost.wref + 1 and ghost.wok == old.ghost.wok,  # and (c11_att raises-ATT_Error#2) nothing was written
        ]
    },
    modifies=['ghost.wok', 'ghost.wref'],
    exc_fields=EXC_FIELDS,
)


# ---------------------------------------------------------------------------
# the server as the handlers see it
# ---------------------------------------------------------------------------
def srv_get_attribute(ghost, handle):
    assert handle == ghost.handle
    return ghost.attr


def srv_send_response(ghost, bearer, response):
    """records the response and checks that it goes to the peer that asked"""
    assert bearer.g_id == ghost.bid
    ghost.nresp = ghost.nresp + 1
    ghost.rop = response.op_code
    if isinstance(response, att.ATT_Error_Response):
        ghost.rerr = response.error_code
        ghost.rerr_handle = response.attribute_handle_in_error
        ghost.rerr_op = response.request_opcode_in_error


model(
    'bumble.gatt_server:Server#c11',
    fields={},
    methods={'get_attribute': Callback('get_attribute', effect=srv_get_attribute), 'send_response': Callback('send_response', effect=srv_send_response)},
)
SERVER_1 = Inst('bumble.gatt_server:Server#c11')
HANDLE = IntRange(0, 0xFFFF)
model('bumble.att:ATT_Read_Request#c11', fields=dict(attribute_handle=HANDLE))
model('bumble.att:ATT_Read_Blob_Request#c11', fields=dict(attribute_handle=HANDLE, value_offset=IntRange(0, 0xFFFF)))
model('bumble.att:ATT_Write_Request#c11', fields=dict(attribute_handle=HANDLE, attribute_value=Bytes))
model('bumble.att:ATT_Write_Command#c11', fields=dict(attribute_handle=HANDLE, attribute_value=Bytes))

RESP_GHOST = dict(nresp=Int, rop=Int, rerr=Int, rerr_handle=Int, rerr_op=Int)
RESP_MOD = ['ghost.nresp', 'ghost.rop', 'ghost.rerr', 'ghost.rerr_handle', 'ghost.rerr_op']
GATE_MOD = ['ghost.nok', 'ghost.nref', 'ghost.wok', 'ghost.wref']
ONE_GHOST = dict(GATE_COUNTERS, bid=Int, handle=Int, attr=Opt(ATTR_H), **RESP_GHOST)
ERR_INLINE = ['ATT_Error.__init__', 'BaseError.__init__']


def one_pre(bearer, request, ghost):
    return [ghost.bid == bearer.g_id, ghost.handle == request.attribute_handle]


def is_error(ghost, request, handle):
    """an ATT_ERROR_RSP for this request and this attribute handle"""
    return ghost.rop == ATT_ERROR_RSP and ghost.rerr_op == request.op_code and ghost.rerr_handle == handle


def read_one_post(data_opcode):
    def post(self, bearer, request, old, ghost):
        a = ghost.attr
        if a is None:
            return [
                ghost.nresp == old.ghost.nresp + 1,
                is_error(ghost, request, request.attribute_handle) and ghost.rerr == ERR_INVALID_HANDLE and ghost.nok == old.ghost.nok,
                True,
                True,
                True,
                ghost.wok == old.ghost.wok,
            ]
        ok = readable_for(a, bearer)
        return [
            ghost.nresp == old.ghost.nresp + 1,
            True,
            # statement: the value is obtained only if readable and the link meets the requirements ...
            implies(ghost.rop == data_opcode, ok),
            implies(ghost.nok != old.ghost.nok, ok),
            # ... a refused access is answered with the corresponding error and discloses nothing
            implies(
                not ok,
                is_error(ghost, request, request.attribute_handle)
                and read_refusal_code_ok(ghost.rerr, a.permissions, encrypted(bearer), authenticated(bearer))
                and ghost.nok == old.ghost.nok,
            ),
            ghost.wok == old.ghost.wok,
        ]

    return post


READ_ONE_NAMES = ['one-response', 'unknown-handle', 'value-only-if-permitted', 'disclosed-only-if-permitted', 'refusal-answered-undisclosed', 'nothing-written']

for _name, _req, _op in (
    ('on_att_read_request', 'bumble.att:ATT_Read_Request#c11', ATT_READ_RSP),
    ('on_att_read_blob_request', 'bumble.att:ATT_Read_Blob_Request#c11', ATT_READ_BLOB_RSP),
):
    contract(
        f'bumble.gatt_server:Server.{_name}',
        key=f'bumble.gatt_server:Server.{_name}@C11',
        prop='C11',
        params=dict(self=SERVER_1, bearer=BEARER, request=Inst(_req)),
        ghost=ONE_GHOST,
        requires=one_pre,
        ensures=read_one_post(_op),
        ensures_names=READ_ONE_NAMES,
        modifies=RESP_MOD + GATE_MOD,
        uses=[V_READ],
        inline=ERR_INLINE,
        decorators_ok=RUN_IN_TASK,
        note='@run_in_task ignored: the coroutine body is what is verified',
    )


def write_request_post(self, bearer, request, old, ghost):
    a = ghost.attr
    if a is None:
        return [
            ghost.nresp == old.ghost.nresp + 1,
            is_error(ghost, request, request.attribute_handle) and ghost.rerr == ERR_INVALID_HANDLE and ghost.wok == old.ghost.wok,
            True,
            True,
            True,
            ghost.nok == old.ghost.nok,
        ]
    ok = writable_for(a, bearer)
    return [
        ghost.nresp == old.ghost.nresp + 1,
        True,
        # statement: the value is changed only if writable and the link meets the write requirements
        implies(ghost.wok != old.ghost.wok, ok and ghost.wok == old.ghost.wok + 1),
        implies(ghost.rop == ATT_WRITE_RSP, ghost.wok == old.ghost.wok + 1),
        # a refused write is answered with the corresponding error (an over-long value may be refused for its
        # length first: Vol 3 Part F 3.4.5.2) and leaves the attribute unchanged
        implies(
            not ok,
            is_error(ghost, request, request.attribute_handle)
            and (write_refusal_code_ok(ghost.rerr, a.permissions, encrypted(bearer), authenticated(bearer)) or (ghost.rerr == ERR_INVALID_ATTRIBUTE_VALUE_LENGTH and len(request.attribute_value) > 512))
            and ghost.wok == old.ghost.wok,
        ),
        ghost.nok == old.ghost.nok,
    ]


WRITE_REQ_NAMES = ['one-response', 'unknown-handle', 'written-only-if-permitted', 'write-response-means-written', 'refusal-answered-unchanged', 'nothing-read']

contract(
    'bumble.gatt_server:Server.on_att_write_request',
    key='bumble.gatt_server:Server.on_att_write_request@C11',
    prop='C11',
    params=dict(self=SERVER_1, bearer=BEARER, request=Inst('bumble.att:ATT_Write_Request#c11')),
    ghost=ONE_GHOST,
    requires=one_pre,
    ensures=write_request_post,
    ensures_names=WRITE_REQ_NAMES,
    modifies=RESP_MOD + GATE_MOD,
    uses=[V_WRITE],
    inline=ERR_INLINE,
    decorators_ok=RUN_IN_TASK,
    note='@run_in_task ignored: the coroutine body is what is verified',
)


def write_command_post(self, bearer, request, old, ghost):
    a = ghost.attr
    if a is None:
        return [ghost.nresp == old.ghost.nresp, True, ghost.wok == old.ghost.wok, ghost.nok == old.ghost.nok]
    ok = writable_for(a, bearer)
    return [
        ghost.nresp == old.ghost.nresp,  # Vol 3 Part F 3.4.5.3: a command has no response, not even an error
        implies(ghost.wok != old.ghost.wok, ok and ghost.wok == old.ghost.wok + 1),
        implies(not ok, ghost.wok == old.ghost.wok),
        ghost.nok == old.ghost.nok,
    ]


contract(
    'bumble.gatt_server:Server.on_att_write_command',
    key='bumble.gatt_server:Server.on_att_write_command@C11',
    prop='C11',
    params=dict(self=SERVER_1, bearer=BEARER, request=Inst('bumble.att:ATT_Write_Command#c11')),
    ghost=ONE_GHOST,
    requires=one_pre,
    ensures=write_command_post,
    ensures_names=['no-response', 'written-only-if-permitted', 'refusal-leaves-unchanged', 'nothing-read'],
    modifies=RESP_MOD + GATE_MOD,
    uses=[V_WRITE],
    inline=ERR_INLINE,
    decorators_ok=RUN_IN_TASK,
    note='@run_in_task ignored: the coroutine body is what is verified',
)


# ===========================================================================
# range / list operations: any number of attributes (AnyListOf: every attribute met is an arbitrary one)
# ===========================================================================
from pyvc.ext_c11 import AnyListOf  # noqa: E402

# the last refusal seen by the handler (set by the callee view of read_value when it raises)
REF_GHOST = dict(ref_code=Int, ref_handle=Int, ref_perm=Int)
V_READ_R = T_READ_VALUE + '@C11callee-r'
contract(
    T_READ_VALUE,
    key=V_READ_R,
    params=dict(self=ATTR_H, bearer=BEARER),
    ghost=dict(GATE_COUNTERS, bid=Int, **REF_GHOST),
    requires=lambda bearer, ghost: [bearer.g_id == ghost.bid],
    returns=Bytes,
    ensures=lambda self, bearer, old, ghost: [
        readable_for(self, bearer),
        ghost.nok == old.ghost.nok + 1 and ghost.nref == old.ghost.nref,
        ghost.ref_code == old.ghost.ref_code and ghost.ref_handle == old.ghost.ref_handle and ghost.ref_perm == old.ghost.ref_perm,
    ],
    raises={
        att.ATT_Error: lambda self, bearer, exc, old, ghost: [
            exc.att_handle == self.handle,
            implies(not readable_for(self, bearer), read_refusal_code_ok(exc.error_code, self.permissions, encrypted(bearer), authenticated(bearer))),
            0 <= exc.error_code and exc.error_code <= 0xFF,
            ghost.nref == old.ghost.nref + 1 and ghost.nok == old.ghost.nok,
            ghost.ref_code == exc.error_code and ghost.ref_handle == self.handle and ghost.ref_perm == self.permissions,
        ]
    },
    modifies=['ghost.nok', 'ghost.nref', 'ghost.ref_code', 'ghost.ref_handle', 'ghost.ref_perm'],
    exc_fields=EXC_FIELDS,
)

# response PDUs that parse their own payload back into a list (display only): not verified, see ENVIRONMENT
SKIP_POST_INIT = []
for _cls in ('ATT_Find_By_Type_Value_Response', 'ATT_Read_By_Type_Response', 'ATT_Read_By_Group_Type_Response'):
    _k = f'bumble.att:{_cls}.__post_init__'
    contract(_k, key=_k + '@C11skip', params=dict(self=Any), modifies=[])
    SKIP_POST_INIT.append(_k + '@C11skip')


def srv_get_any(ghost, handle):
    """Server.get_attribute for an arbitrary database: any handle may or may not name an attribute, which one is
    arbitrary (fresh result of the declared type); the handle asked for is remembered"""
    ghost.req_handle = handle
    return None


model(
    'bumble.gatt_server:Server#any',
    fields=dict(attributes=AnyListOf(ATTR_H)),
    methods={
        # any handle may or may not name an attribute; which one is arbitrary
        'get_attribute': Callback('get_attribute', effect=srv_get_any, returns=Opt(ATTR_H)),
        'send_response': Callback('send_response', effect=srv_send_response),
    },
)
SERVER_ANY = Inst('bumble.gatt_server:Server#any')
model('bumble.att:ATT_Read_By_Type_Request#c11', fields=dict(starting_handle=HANDLE, ending_handle=HANDLE, attribute_type=UUID_T))
model('bumble.att:ATT_Read_By_Group_Type_Request#c11', fields=dict(starting_handle=HANDLE, ending_handle=HANDLE, attribute_group_type=UUID_T))
model('bumble.att:ATT_Find_By_Type_Value_Request#c11', fields=dict(starting_handle=HANDLE, ending_handle=HANDLE, attribute_type=UUID_T, attribute_value=Bytes))
model('bumble.att:ATT_Read_Multiple_Request#c11', fields=dict(set_of_handles=ListOf(Int)))

ANY_GHOST = dict(GATE_COUNTERS, bid=Int, req_handle=Int, **REF_GHOST, **RESP_GHOST)
ANY_MOD = RESP_MOD + GATE_MOD + ['ghost.ref_code', 'ghost.ref_handle', 'ghost.ref_perm', 'ghost.req_handle']
ANY_INLINE = ERR_INLINE + ['UUID.__eq__']


def any_pre(bearer, ghost):
    return [ghost.bid == bearer.g_id]


def refusal_reported(ghost, request, bearer, handle):
    """the error response carries what the gate raised for the attribute that was refused"""
    return (
        ghost.rop == ATT_ERROR_RSP
        and ghost.rerr_op == request.op_code
        and ghost.rerr == ghost.ref_code
        and ghost.rerr_handle == handle
        and (may_read(ghost.ref_perm, encrypted(bearer), authenticated(bearer)) or read_refusal_code_ok(ghost.rerr, ghost.ref_perm, encrypted(bearer), authenticated(bearer)))
    )


def range_read_post(data_opcode):
    """Vol 3 Part F 3.4.4.1 / 3.4.4.9 + statement"""

    def post(self, bearer, request, old, ghost):
        return [
            ghost.nresp == old.ghost.nresp + 1,
            # values are in the response only if at least one permitted read took place (and every value a handler
            # can hold comes from a permitted read: callee view)
            implies(ghost.rop == data_opcode, ghost.nok > old.ghost.nok),
            # the first matching attribute is refused: answered with the error the gate raised, nothing disclosed
            implies(ghost.nok == old.ghost.nok and ghost.nref != old.ghost.nref, refusal_reported(ghost, request, bearer, ghost.ref_handle)),
            # a permission error is only reported when a refusal happened and nothing was disclosed
            implies(ghost.rop == ATT_ERROR_RSP and is_permission_error(ghost.rerr), ghost.nok == old.ghost.nok and ghost.nref == old.ghost.nref + 1),
            # the walk stops at the first refusal
            ghost.nref <= old.ghost.nref + 1,
            ghost.wok == old.ghost.wok,
        ]

    return post


RANGE_READ_NAMES = ['one-response', 'data-only-after-a-permitted-read', 'first-refusal-answered', 'permission-error-means-refused-undisclosed', 'stops-at-first-refusal', 'nothing-written']


def rbt_inv(request, attributes, response, old, ghost):
    return [
        ghost.nresp == old.ghost.nresp,
        ghost.nref == old.ghost.nref and ghost.wok == old.ghost.wok,
        len(attributes) == ghost.nok - old.ghost.nok,
        response.op_code == ATT_ERROR_RSP and response.error_code == ERR_ATTRIBUTE_NOT_FOUND,
    ]


contract(
    'bumble.gatt_server:Server.on_att_read_by_type_request',
    key='bumble.gatt_server:Server.on_att_read_by_type_request@C11',
    prop='C11',
    params=dict(self=SERVER_ANY, bearer=BEARER, request=Inst('bumble.att:ATT_Read_By_Type_Request#c11')),
    ghost=ANY_GHOST,
    requires=any_pre,
    ensures=range_read_post(ATT_READ_BY_TYPE_RSP),
    ensures_names=RANGE_READ_NAMES,
    invariants={0: rbt_inv},
    loop_locals={0: dict(attributes=ListOf(TupleOf(Int, Bytes)), entry_size=Int)},
    modifies=ANY_MOD,
    uses=[V_READ_R] + SKIP_POST_INIT,
    inline=ANY_INLINE,
    decorators_ok=RUN_IN_TASK,
    note='@run_in_task ignored: the coroutine body is what is verified; any number of attributes',
)


def rbgt_inv(request, attributes, old, ghost):
    return [
        ghost.nresp == old.ghost.nresp,
        ghost.nref == old.ghost.nref and ghost.wok == old.ghost.wok,
        len(attributes) == ghost.nok - old.ghost.nok,
    ]


contract(
    'bumble.gatt_server:Server.on_att_read_by_group_type_request',
    key='bumble.gatt_server:Server.on_att_read_by_group_type_request@C11',
    prop='C11',
    params=dict(self=SERVER_ANY, bearer=BEARER, request=Inst('bumble.att:ATT_Read_By_Group_Type_Request#c11')),
    ghost=ANY_GHOST,
    requires=any_pre,
    ensures=range_read_post(ATT_READ_BY_GROUP_TYPE_RSP),
    ensures_names=RANGE_READ_NAMES,
    invariants={0: rbgt_inv},
    loop_locals={0: dict(attributes=ListOf(TupleOf(Int, Int, Bytes)))},
    modifies=ANY_MOD,
    uses=[V_READ_R] + SKIP_POST_INIT,
    inline=ANY_INLINE,
    decorators_ok=RUN_IN_TASK,
    note='@run_in_task ignored: the coroutine body is what is verified; any number of attributes',
)


def fbtv_post(self, bearer, request, old, ghost):
    """Vol 3 Part F 3.4.3.3: only attributes the client may read are matched; the only error is Attribute Not Found
    (a permission error would disclose that a protected attribute of that type exists in the range)"""
    return [
        ghost.nresp == old.ghost.nresp + 1,
        implies(ghost.rop == ATT_FIND_BY_TYPE_VALUE_RSP, ghost.nok > old.ghost.nok),
        implies(ghost.rop == ATT_ERROR_RSP, ghost.rerr == ERR_ATTRIBUTE_NOT_FOUND and ghost.rerr_op == request.op_code),
        ghost.rop == ATT_ERROR_RSP or ghost.rop == ATT_FIND_BY_TYPE_VALUE_RSP,
        ghost.wok == old.ghost.wok,
    ]


def fbtv_inv0(attributes, old, ghost):
    return [ghost.nresp == old.ghost.nresp, ghost.wok == old.ghost.wok, len(attributes) <= ghost.nok - old.ghost.nok]


def fbtv_inv1(attributes, old, ghost):
    return [ghost.nresp == old.ghost.nresp, ghost.wok == old.ghost.wok, len(attributes) > 0, len(attributes) <= ghost.nok - old.ghost.nok]


contract(
    'bumble.gatt_server:Server.on_att_find_by_type_value_request',
    key='bumble.gatt_server:Server.on_att_find_by_type_value_request@C11',
    prop='C11',
    params=dict(self=SERVER_ANY, bearer=BEARER, request=Inst('bumble.att:ATT_Find_By_Type_Value_Request#c11')),
    ghost=ANY_GHOST,
    requires=any_pre,
    ensures=fbtv_post,
    ensures_names=['one-response', 'match-only-after-a-permitted-read', 'only-not-found-errors', 'response-kind', 'nothing-written'],
    invariants={0: fbtv_inv0, 1: fbtv_inv1},
    loop_locals={0: dict(attributes=AnyListOf(ATTR_H)), 1: dict(handles_information_list=ListOf(Bytes))},
    modifies=ANY_MOD,
    uses=[V_READ_R] + SKIP_POST_INIT,
    inline=ANY_INLINE,
    decorators_ok=RUN_IN_TASK,
    note='@run_in_task ignored: the coroutine body is what is verified; any number of attributes',
)


def rm_post(data_opcode):
    """Vol 3 Part F 3.4.4.7 / 3.4.4.11: if any of the reads is not permitted the answer is that error"""

    def post(self, bearer, request, old, ghost):
        return [
            ghost.nresp == old.ghost.nresp + 1,
            implies(ghost.rop == data_opcode, ghost.nref == old.ghost.nref),
            # the handle in error is the handle of the request's list that was being read
            implies(ghost.nref != old.ghost.nref, refusal_reported(ghost, request, bearer, ghost.req_handle)),
            implies(ghost.rop == ATT_ERROR_RSP and is_permission_error(ghost.rerr), ghost.nref == old.ghost.nref + 1),
            ghost.nref <= old.ghost.nref + 1,
            ghost.wok == old.ghost.wok,
        ]

    return post


RM_NAMES = ['one-response', 'values-only-if-no-refusal', 'refusal-answered', 'permission-error-means-refused', 'stops-at-first-refusal', 'nothing-written']


def rm_inv(_i, old, ghost):
    return [_i >= 0, ghost.nresp == old.ghost.nresp, ghost.nref == old.ghost.nref and ghost.wok == old.ghost.wok]


ATT_READ_MULTIPLE_VARIABLE_RSP = 0x21  # Vol 3 Part F 3.4.8
for _name, _op, _ll in (
    ('on_att_read_multiple_request', ATT_READ_MULTIPLE_RSP, dict(values=ListOf(Bytes))),
    ('on_att_read_multiple_variable_request', ATT_READ_MULTIPLE_VARIABLE_RSP, dict(length_value_tuple_list=ListOf(TupleOf(Int, Bytes)))),
):
    contract(
        f'bumble.gatt_server:Server.{_name}',
        key=f'bumble.gatt_server:Server.{_name}@C11',
        prop='C11',
        params=dict(self=SERVER_ANY, bearer=BEARER, request=Inst('bumble.att:ATT_Read_Multiple_Request#c11')),
        ghost=ANY_GHOST,
        requires=any_pre,
        ensures=rm_post(_op),
        ensures_names=RM_NAMES,
        invariants={0: rm_inv},
        loop_locals={0: _ll},
        modifies=ANY_MOD,
        uses=[V_READ_R],
        inline=ANY_INLINE,
        decorators_ok=RUN_IN_TASK,
        note='@run_in_task ignored: the coroutine body is what is verified; any list of handles',
    )
