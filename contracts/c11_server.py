"""C11 part 2 -- the reading / writing handlers of gatt_server.Server (the eight of the statement + Read Multiple
Variable) against callee views of the gate contracts of contracts/c11_att.py.

The attribute seen by a handler (model Attribute#h) has **no `value` field**: the only way a handler can get at
a value, or change one, is Attribute.read_value / Attribute.write_value, which are replaced by their contracts
(callee views = the clauses verified in c11_att.py + ghost counters of the outcomes).  A handler that touched
`attribute.value` directly would hit a non-existing field (AttributeError path -> failing `exc` obligation).

  ghost.nok / nref     read_value returned a value / refused            (a value is "disclosed" only through nok)
  ghost.wok / wref     the same for write_value                         (a value is "written" only through wok)
  call-site obligations (callee-pre#Attribute.read_value@C11callee#k, ...write_value...#k) at every call of a gate:
    #0  the bearer handed to the gate is the bearer of the request (the link that is judged is the peer's link)
    #1  if the link passes the gate, the attribute has at least one read (write) permission flag
    #2  if the link passes the gate, the attribute has the READABLE (WRITEABLE) flag
        (#1 and #2 together are the "only if the attribute is readable / writable" half of the statement, split into
        the two classes "no permission flag at all" and "requirement flags only", see notes/C11/NOTES.md)
  ghost.ref_*          the last refusal raised by a gate (code, handle, permissions of that attribute)
  ghost.nresp, rop, rerr..  what Server.send_response was given (recorded callback), and for whom
"""
from bumble import att, core, utils
from contracts.c11_att import BEARER, authenticated, encrypted
from pyvc.contracts import Any, Bytes, BytesN, Callback, Inst, Int, IntRange, ListOf, Opt, TupleOf, contract, implies, model
from pyvc.ext_c11 import AnyListOf
from spec.att_perm import (ATT_ERROR_RSP, ATT_FIND_BY_TYPE_VALUE_RSP, ATT_READ_BLOB_RSP, ATT_READ_BY_GROUP_TYPE_RSP, ATT_READ_BY_TYPE_RSP, ATT_READ_MULTIPLE_RSP,
                           ATT_READ_RSP, ATT_WRITE_RSP, ERR_ATTRIBUTE_NOT_FOUND, ERR_INVALID_ATTRIBUTE_VALUE_LENGTH, ERR_INVALID_HANDLE, READABLE, WRITEABLE,
                           has, is_permission_error, link_ok_read, link_ok_write, no_read_permission_at_all, no_write_permission_at_all,
                           read_link_refusal_code_ok, read_refusal_code_ok, write_link_refusal_code_ok, write_refusal_code_ok)

ENVIRONMENT = [
    '@AsyncRunner.run_in_task() on the handlers is ignored: the body is verified as the coroutine it is; an exception '
    'escaping it is logged by the runner and NO response is sent (so an escaping ATT_Error is a failing obligation)',
    'Server.get_attribute (handle -> attribute or None) and Server.send_response (encode + send on the bearer) are recorded '
    'callbacks: the ATT codec and the transport are C10/C18/C05',
    'callee views of Attribute.read_value / write_value used by the handlers = the clauses verified in c11_att.py '
    '(normal return => link requirements met; refusal => ATT_Error with att_handle and a matching code) + ghost counters '
    'of the outcome (definitional: incremented exactly on that outcome, classified by the permission flags of the '
    'attribute) + the call-site obligation that the bearer passed is the bearer of the request; the value returned is an '
    'arbitrary byte string',
    'range operations: Server.attributes is abstracted by its length (AnyListOf): every attribute met is an arbitrary '
    'one -- ordering by handle / uniqueness of handles are not used; Server.get_attribute in Read Multiple returns an '
    'arbitrary attribute or None for every handle',
    'the __post_init__ of the list-shaped response PDUs (they parse their own payload back into a python list for '
    'display) are not verified: assumed to return normally and to set only that derived field',
    'attribute types are UUID objects compared with the real UUID.__eq__ (on uuid_128_bytes)',
    'Prepare Write / Execute Write / Signed Write have no handler in gatt_server.Server (answered Request Not Supported / ignored)',
]

RUN_IN_TASK = ['utils.AsyncRunner.run_in_task()']


# ---------------------------------------------------------------------------
# attributes as the handlers see them
# ---------------------------------------------------------------------------
def _build_attribute(fields, builder):
    """native replay: a real Attribute with some value behind the gates"""
    a = att.Attribute.__new__(att.Attribute)
    utils.EventEmitter.__init__(a)
    a.handle = fields['handle']
    a.end_group_handle = fields['end_group_handle']
    a.permissions = att.Attribute.Permissions(fields['permissions'])
    a.type = fields['type']
    a.value = b'\x5a\xa5'
    return a


model('bumble.core:UUID#c11', fields=dict(uuid_128_bytes=BytesN(16)))
UUID_T = Inst('bumble.core:UUID#c11')
model(
    'bumble.att:Attribute#h',
    fields=dict(handle=IntRange(0, 0xFFFF), end_group_handle=IntRange(0, 0xFFFF), permissions=IntRange(0, 0xFF), type=UUID_T),
    build=_build_attribute,
)
ATTR_H = Inst('bumble.att:Attribute#h')


def link_ok_r(attribute, bearer):
    return link_ok_read(attribute.permissions, encrypted(bearer), authenticated(bearer))


def link_ok_w(attribute, bearer):
    return link_ok_write(attribute.permissions, encrypted(bearer), authenticated(bearer))


def requirement_only_r(permissions):
    """a read requirement flag is set but READABLE is not"""
    return not has(permissions, READABLE) and not no_read_permission_at_all(permissions)


def requirement_only_w(permissions):
    return not has(permissions, WRITEABLE) and not no_write_permission_at_all(permissions)


# -- callee views of the two gates --------------------------------------------
GATE_GHOST = dict(nok=Int, nref=Int, wok=Int, wref=Int, ref_code=Int, ref_handle=Int, ref_perm=Int, bid=Int)
GATE_MOD = ['ghost.nok', 'ghost.nref', 'ghost.wok', 'ghost.wref', 'ghost.ref_code', 'ghost.ref_handle', 'ghost.ref_perm']
T_READ_VALUE = 'bumble.att:Attribute.read_value'
T_WRITE_VALUE = 'bumble.att:Attribute.write_value'
V_READ = T_READ_VALUE + '@C11callee'
V_WRITE = T_WRITE_VALUE + '@C11callee'
EXC_FIELDS = {att.ATT_Error: dict(error_code=Int, att_handle=Int)}


def same_refusal(old, ghost):
    return ghost.ref_code == old.ghost.ref_code and ghost.ref_handle == old.ghost.ref_handle and ghost.ref_perm == old.ghost.ref_perm


def refusal_recorded(self, exc, ghost):
    return ghost.ref_code == exc.error_code and ghost.ref_handle == self.handle and ghost.ref_perm == self.permissions


def _mon_read(ghost, args, result, exc):
    """native replay: the ghost bookkeeping of the callee view, after the real read_value ran"""
    a = args['self']
    p = int(a.permissions)
    if exc is None:
        ghost.nok += 1
    elif isinstance(exc, att.ATT_Error):
        ghost.nref += 1
        ghost.ref_code, ghost.ref_handle, ghost.ref_perm = exc.error_code, a.handle, p


def _mon_write(ghost, args, result, exc):
    a = args['self']
    p = int(a.permissions)
    if exc is None:
        ghost.wok += 1
    elif isinstance(exc, att.ATT_Error):
        ghost.wref += 1
        ghost.ref_code, ghost.ref_handle, ghost.ref_perm = exc.error_code, a.handle, p


def read_call_site(self, bearer, ghost):
    passes = link_ok_r(self, bearer)
    return [
        bearer.g_id == ghost.bid,
        implies(passes, not no_read_permission_at_all(self.permissions)),
        implies(passes, has(self.permissions, READABLE)),
    ]


def write_call_site(self, bearer, ghost):
    passes = link_ok_w(self, bearer)
    return [
        bearer.g_id == ghost.bid,
        implies(passes, not no_write_permission_at_all(self.permissions)),
        implies(passes, has(self.permissions, WRITEABLE)),
    ]


contract(
    T_READ_VALUE,
    key=V_READ,
    params=dict(self=ATTR_H, bearer=BEARER),
    ghost=GATE_GHOST,
    requires=read_call_site,
    returns=Bytes,
    ensures=lambda self, bearer, old, ghost: [
        link_ok_r(self, bearer),  # c11_att: post#link-meets-read-requirements
        ghost.nok == old.ghost.nok + 1 and ghost.nref == old.ghost.nref,
        same_refusal(old, ghost),
        ghost.wok == old.ghost.wok and ghost.wref == old.ghost.wref,
    ],
    raises={
        att.ATT_Error: lambda self, bearer, exc, old, ghost: [
            exc.att_handle == self.handle,  # c11_att: raises-ATT_Error#handle-in-error
            implies(not link_ok_r(self, bearer), read_link_refusal_code_ok(exc.error_code, self.permissions, encrypted(bearer), authenticated(bearer))),  # matching-error-code
            0 <= exc.error_code and exc.error_code <= 0xFF,
            ghost.nref == old.ghost.nref + 1 and ghost.nok == old.ghost.nok,
            refusal_recorded(self, exc, ghost),
            ghost.wok == old.ghost.wok and ghost.wref == old.ghost.wref,
        ]
    },
    modifies=GATE_MOD,
    exc_fields=EXC_FIELDS,
    native_monitor=_mon_read,
)

contract(
    T_WRITE_VALUE,
    key=V_WRITE,
    params=dict(self=ATTR_H, bearer=BEARER, value=Bytes),
    ghost=GATE_GHOST,
    requires=write_call_site,
    ensures=lambda self, bearer, old, ghost: [
        link_ok_w(self, bearer),  # c11_att: post#link-meets-write-requirements
        ghost.wok == old.ghost.wok + 1 and ghost.wref == old.ghost.wref,
        same_refusal(old, ghost),
        ghost.nok == old.ghost.nok and ghost.nref == old.ghost.nref,
    ],
    raises={
        att.ATT_Error: lambda self, bearer, exc, old, ghost: [
            exc.att_handle == self.handle,
            implies(not link_ok_w(self, bearer), write_link_refusal_code_ok(exc.error_code, self.permissions, encrypted(bearer), authenticated(bearer))),
            0 <= exc.error_code and exc.error_code <= 0xFF,
            # c11_att raises-ATT_Error#2: nothing was written
            ghost.wref == old.ghost.wref + 1 and ghost.wok == old.ghost.wok,
            refusal_recorded(self, exc, ghost),
            ghost.nok == old.ghost.nok and ghost.nref == old.ghost.nref,
        ]
    },
    modifies=GATE_MOD,
    exc_fields=EXC_FIELDS,
    native_monitor=_mon_write,
)


# ---------------------------------------------------------------------------
# the server as the single-attribute handlers see it
# ---------------------------------------------------------------------------
def srv_get_attribute(ghost, handle):
    assert handle == ghost.handle
    return ghost.attr


def srv_send_response(ghost, bearer, response):
    """records the response and checks that it goes to the peer that asked"""
    assert bearer.g_id == ghost.bid
    ghost.nresp = ghost.nresp + 1
    ghost.rop = response.op_code
    if isinstance(response, att.ATT_Error_Response):
        ghost.rerr = response.error_code
        ghost.rerr_handle = response.attribute_handle_in_error
        ghost.rerr_op = response.request_opcode_in_error


model(
    'bumble.gatt_server:Server#c11',
    fields={},
    methods={'get_attribute': Callback('get_attribute', effect=srv_get_attribute), 'send_response': Callback('send_response', effect=srv_send_response)},
)
SERVER_1 = Inst('bumble.gatt_server:Server#c11')
HANDLE = IntRange(0, 0xFFFF)
model('bumble.att:ATT_Read_Request#c11', fields=dict(attribute_handle=HANDLE))
model('bumble.att:ATT_Read_Blob_Request#c11', fields=dict(attribute_handle=HANDLE, value_offset=IntRange(0, 0xFFFF)))
model('bumble.att:ATT_Write_Request#c11', fields=dict(attribute_handle=HANDLE, attribute_value=Bytes))
model('bumble.att:ATT_Write_Command#c11', fields=dict(attribute_handle=HANDLE, attribute_value=Bytes))

RESP_GHOST = dict(nresp=Int, rop=Int, rerr=Int, rerr_handle=Int, rerr_op=Int)
RESP_MOD = ['ghost.nresp', 'ghost.rop', 'ghost.rerr', 'ghost.rerr_handle', 'ghost.rerr_op']
ONE_GHOST = dict(GATE_GHOST, handle=Int, attr=Opt(ATTR_H), **RESP_GHOST)
# Server._read_attribute / _write_attribute: peer-access helpers of the candidate fix (absent on the unchanged tree)
ERR_INLINE = ['ATT_Error.__init__', 'BaseError.__init__', 'Server._read_attribute', 'Server._write_attribute']


def one_pre(bearer, request, ghost):
    return [ghost.bid == bearer.g_id, ghost.handle == request.attribute_handle]


def is_error(ghost, request, handle):
    """an ATT_ERROR_RSP for this request and this attribute handle"""
    return ghost.rop == ATT_ERROR_RSP and ghost.rerr_op == request.op_code and ghost.rerr_handle == handle


def reads_unchanged(old, ghost):
    return ghost.nok == old.ghost.nok


def writes_unchanged(old, ghost):
    return ghost.wok == old.ghost.wok


def read_one_post(data_opcode):
    def post(self, bearer, request, old, ghost):
        a = ghost.attr
        h = request.attribute_handle
        if a is None:
            return [
                ghost.nresp == old.ghost.nresp + 1,
                is_error(ghost, request, h) and ghost.rerr == ERR_INVALID_HANDLE and reads_unchanged(old, ghost),
                True,
                True,
                True,
                True,
                writes_unchanged(old, ghost),
            ]
        enc, authn = encrypted(bearer), authenticated(bearer)
        return [
            ghost.nresp == old.ghost.nresp + 1,
            True,
            # statement: the value is obtained only if the link meets the read requirements ...
            implies(ghost.nok != old.ghost.nok, link_ok_r(a, bearer) and ghost.nok == old.ghost.nok + 1),
            implies(ghost.rop == data_opcode, ghost.nok == old.ghost.nok + 1),
            # a refused access is answered with the corresponding error
            implies(ghost.nok == old.ghost.nok, is_error(ghost, request, h) and (ghost.nref == old.ghost.nref or ghost.rerr == ghost.ref_code)),
            # the error of a gate refusal names an unmet link requirement (an error raised by the application's value
            # function is passed on as it is); Read Not Permitted that does not come from there: attribute not readable
            implies(ghost.rop == ATT_ERROR_RSP and ghost.nref != old.ghost.nref and not link_ok_r(a, bearer), read_link_refusal_code_ok(ghost.rerr, a.permissions, enc, authn))
            and implies(ghost.rop == ATT_ERROR_RSP and ghost.nref == old.ghost.nref and is_permission_error(ghost.rerr), read_refusal_code_ok(ghost.rerr, a.permissions, enc, authn) and reads_unchanged(old, ghost)),
            writes_unchanged(old, ghost),
        ]

    return post


READ_ONE_NAMES = ['one-response', 'unknown-handle', 'disclosed-only-if-link-meets-requirements', 'value-response-only-after-disclosure', 'refusal-answered', 'error-code-corresponds', 'nothing-written']

for _name, _req, _op in (
    ('on_att_read_request', 'bumble.att:ATT_Read_Request#c11', ATT_READ_RSP),
    ('on_att_read_blob_request', 'bumble.att:ATT_Read_Blob_Request#c11', ATT_READ_BLOB_RSP),
):
    contract(
        f'bumble.gatt_server:Server.{_name}',
        key=f'bumble.gatt_server:Server.{_name}@C11',
        prop='C11',
        params=dict(self=SERVER_1, bearer=BEARER, request=Inst(_req)),
        ghost=ONE_GHOST,
        requires=one_pre,
        ensures=read_one_post(_op),
        ensures_names=READ_ONE_NAMES,
        modifies=RESP_MOD + GATE_MOD,
        uses=[V_READ],
        inline=ERR_INLINE,
        decorators_ok=RUN_IN_TASK,
        note='@run_in_task ignored: the coroutine body is what is verified',
    )


def write_request_post(self, bearer, request, old, ghost):
    a = ghost.attr
    h = request.attribute_handle
    if a is None:
        return [
            ghost.nresp == old.ghost.nresp + 1,
            is_error(ghost, request, h) and ghost.rerr == ERR_INVALID_HANDLE and writes_unchanged(old, ghost),
            True,
            True,
            True,
            True,
            reads_unchanged(old, ghost),
        ]
    enc, authn = encrypted(bearer), authenticated(bearer)
    return [
        ghost.nresp == old.ghost.nresp + 1,
        True,
        # statement: the value is changed only if the link meets the write requirements ...
        implies(ghost.wok != old.ghost.wok, link_ok_w(a, bearer) and ghost.wok == old.ghost.wok + 1),
        implies(ghost.rop == ATT_WRITE_RSP, ghost.wok == old.ghost.wok + 1),
        # a refused write is answered with the corresponding error (an over-long value is refused for its length:
        # Vol 3 Part F 3.4.5.2) and leaves the attribute unchanged
        implies(
            ghost.wok == old.ghost.wok,
            is_error(ghost, request, h)
            and (ghost.wref != old.ghost.wref or ghost.rerr != ERR_INVALID_ATTRIBUTE_VALUE_LENGTH or len(request.attribute_value) > 512)
            and (ghost.wref == old.ghost.wref or ghost.rerr == ghost.ref_code),
        ),
        implies(ghost.rop == ATT_ERROR_RSP and ghost.wref != old.ghost.wref and not link_ok_w(a, bearer), write_link_refusal_code_ok(ghost.rerr, a.permissions, enc, authn))
        and implies(ghost.rop == ATT_ERROR_RSP and ghost.wref == old.ghost.wref and is_permission_error(ghost.rerr), write_refusal_code_ok(ghost.rerr, a.permissions, enc, authn) and writes_unchanged(old, ghost)),
        reads_unchanged(old, ghost),
    ]


WRITE_REQ_NAMES = ['one-response', 'unknown-handle', 'written-only-if-link-meets-requirements', 'write-response-means-written', 'refusal-answered-unchanged', 'error-code-corresponds', 'nothing-read']

contract(
    'bumble.gatt_server:Server.on_att_write_request',
    key='bumble.gatt_server:Server.on_att_write_request@C11',
    prop='C11',
    params=dict(self=SERVER_1, bearer=BEARER, request=Inst('bumble.att:ATT_Write_Request#c11')),
    ghost=ONE_GHOST,
    requires=one_pre,
    ensures=write_request_post,
    ensures_names=WRITE_REQ_NAMES,
    modifies=RESP_MOD + GATE_MOD,
    uses=[V_WRITE],
    inline=ERR_INLINE,
    decorators_ok=RUN_IN_TASK,
    note='@run_in_task ignored: the coroutine body is what is verified',
)


def write_command_post(self, bearer, request, old, ghost):
    a = ghost.attr
    if a is None:
        return [ghost.nresp == old.ghost.nresp, writes_unchanged(old, ghost), reads_unchanged(old, ghost)]
    return [
        ghost.nresp == old.ghost.nresp,  # Vol 3 Part F 3.4.5.3: a command has no response, not even an error
        implies(ghost.wok != old.ghost.wok, link_ok_w(a, bearer) and ghost.wok == old.ghost.wok + 1),
        reads_unchanged(old, ghost),
    ]


contract(
    'bumble.gatt_server:Server.on_att_write_command',
    key='bumble.gatt_server:Server.on_att_write_command@C11',
    prop='C11',
    params=dict(self=SERVER_1, bearer=BEARER, request=Inst('bumble.att:ATT_Write_Command#c11')),
    ghost=ONE_GHOST,
    requires=one_pre,
    ensures=write_command_post,
    ensures_names=['no-response', 'written-only-if-link-meets-requirements', 'nothing-read'],
    modifies=RESP_MOD + GATE_MOD,
    uses=[V_WRITE],
    inline=ERR_INLINE,
    decorators_ok=RUN_IN_TASK,
    note='@run_in_task ignored: the coroutine body is what is verified',
)


# ===========================================================================
# range / list operations: any number of attributes (AnyListOf: every attribute met is an arbitrary one)
# ===========================================================================
# response PDUs that parse their own payload back into a list (display only): not verified, see ENVIRONMENT
SKIP_POST_INIT = []
for _cls in ('ATT_Find_By_Type_Value_Response', 'ATT_Read_By_Type_Response', 'ATT_Read_By_Group_Type_Response'):
    _k = f'bumble.att:{_cls}.__post_init__'
    contract(_k, key=_k + '@C11skip', params=dict(self=Any), modifies=[])
    SKIP_POST_INIT.append(_k + '@C11skip')


def srv_get_any(ghost, handle):
    """Server.get_attribute for an arbitrary database: any handle may or may not name an attribute, which one is
    arbitrary (the k-th answer of the environment, ghost.answers[k]); the handle asked for is remembered"""
    ghost.req_handle = handle
    k = ghost.asked
    ghost.asked = k + 1
    return ghost.answers[k]


model(
    'bumble.gatt_server:Server#any',
    fields=dict(attributes=AnyListOf(ATTR_H)),
    methods={
        'get_attribute': Callback('get_attribute', effect=srv_get_any),
        'send_response': Callback('send_response', effect=srv_send_response),
    },
)
SERVER_ANY = Inst('bumble.gatt_server:Server#any')
model('bumble.att:ATT_Read_By_Type_Request#c11', fields=dict(starting_handle=HANDLE, ending_handle=HANDLE, attribute_type=UUID_T))
model('bumble.att:ATT_Read_By_Group_Type_Request#c11', fields=dict(starting_handle=HANDLE, ending_handle=HANDLE, attribute_group_type=UUID_T))
model('bumble.att:ATT_Find_By_Type_Value_Request#c11', fields=dict(starting_handle=HANDLE, ending_handle=HANDLE, attribute_type=UUID_T, attribute_value=Bytes))
model('bumble.att:ATT_Read_Multiple_Request#c11', fields=dict(set_of_handles=ListOf(Int)))

ANY_GHOST = dict(GATE_GHOST, req_handle=Int, asked=Int, answers=AnyListOf(Opt(ATTR_H)), **RESP_GHOST)
ANY_MOD = RESP_MOD + GATE_MOD + ['ghost.req_handle', 'ghost.asked']
ANY_INLINE = ERR_INLINE + ['UUID.__eq__']


def any_pre(bearer, ghost):
    return [ghost.bid == bearer.g_id]


def refusal_reported(ghost, request, bearer, handle):
    """the error response carries what the gate raised for the attribute that was refused"""
    enc, authn = encrypted(bearer), authenticated(bearer)
    return (
        ghost.rop == ATT_ERROR_RSP
        and ghost.rerr_op == request.op_code
        and ghost.rerr == ghost.ref_code
        and ghost.rerr_handle == handle
        and (link_ok_read(ghost.ref_perm, enc, authn) or read_link_refusal_code_ok(ghost.rerr, ghost.ref_perm, enc, authn))
    )


def range_read_post(data_opcode):
    """Vol 3 Part F 3.4.4.1 / 3.4.4.9 + statement"""

    def post(self, bearer, request, old, ghost):
        return [
            ghost.nresp == old.ghost.nresp + 1,
            # values are in the response only if at least one read got past the gate (every value a handler can hold
            # comes from such a read: callee view)
            implies(ghost.rop == data_opcode, ghost.nok > old.ghost.nok),
            # the first matching attribute is refused by the gate: answered with the error raised, nothing disclosed
            implies(ghost.nok == old.ghost.nok and ghost.nref != old.ghost.nref, refusal_reported(ghost, request, bearer, ghost.ref_handle)),
            # a permission error is only reported when nothing was disclosed
            implies(ghost.rop == ATT_ERROR_RSP and is_permission_error(ghost.rerr), ghost.nok == old.ghost.nok),
            # the walk stops at the first refusal
            ghost.nref <= old.ghost.nref + 1,
            writes_unchanged(old, ghost),
        ]

    return post


RANGE_READ_NAMES = ['one-response', 'values-only-after-a-read-past-the-gate', 'first-refusal-answered', 'permission-error-means-undisclosed', 'stops-at-first-refusal', 'nothing-written']


def rbt_inv(request, attributes, response, old, ghost):
    return [
        ghost.nresp == old.ghost.nresp,
        ghost.nref == old.ghost.nref and writes_unchanged(old, ghost),
        len(attributes) == ghost.nok - old.ghost.nok,
        response.op_code == ATT_ERROR_RSP and response.error_code == ERR_ATTRIBUTE_NOT_FOUND,
    ]


contract(
    'bumble.gatt_server:Server.on_att_read_by_type_request',
    key='bumble.gatt_server:Server.on_att_read_by_type_request@C11',
    prop='C11',
    params=dict(self=SERVER_ANY, bearer=BEARER, request=Inst('bumble.att:ATT_Read_By_Type_Request#c11')),
    ghost=ANY_GHOST,
    requires=any_pre,
    ensures=range_read_post(ATT_READ_BY_TYPE_RSP),
    ensures_names=RANGE_READ_NAMES,
    invariants={0: rbt_inv},
    loop_locals={0: dict(attributes=ListOf(TupleOf(Int, Bytes)), entry_size=Int)},
    modifies=ANY_MOD,
    uses=[V_READ] + SKIP_POST_INIT,
    inline=ANY_INLINE,
    decorators_ok=RUN_IN_TASK,
    note='@run_in_task ignored: the coroutine body is what is verified; any number of attributes',
)


def rbgt_inv(request, attributes, old, ghost):
    return [
        ghost.nresp == old.ghost.nresp,
        ghost.nref == old.ghost.nref and writes_unchanged(old, ghost),
        len(attributes) == ghost.nok - old.ghost.nok,
    ]


contract(
    'bumble.gatt_server:Server.on_att_read_by_group_type_request',
    key='bumble.gatt_server:Server.on_att_read_by_group_type_request@C11',
    prop='C11',
    params=dict(self=SERVER_ANY, bearer=BEARER, request=Inst('bumble.att:ATT_Read_By_Group_Type_Request#c11')),
    ghost=ANY_GHOST,
    requires=any_pre,
    ensures=range_read_post(ATT_READ_BY_GROUP_TYPE_RSP),
    ensures_names=RANGE_READ_NAMES,
    invariants={0: rbgt_inv},
    loop_locals={0: dict(attributes=ListOf(TupleOf(Int, Int, Bytes)))},
    modifies=ANY_MOD,
    uses=[V_READ] + SKIP_POST_INIT,
    inline=ANY_INLINE,
    decorators_ok=RUN_IN_TASK,
    note='@run_in_task ignored: the coroutine body is what is verified; any number of attributes',
)


def fbtv_post(self, bearer, request, old, ghost):
    """Vol 3 Part F 3.4.3.3: only attributes the client may read are matched; the only error is Attribute Not Found
    (a permission error would disclose that a protected attribute of that type exists in the range)"""
    return [
        ghost.nresp == old.ghost.nresp + 1,
        implies(ghost.rop == ATT_FIND_BY_TYPE_VALUE_RSP, ghost.nok > old.ghost.nok),
        implies(ghost.rop == ATT_ERROR_RSP, ghost.rerr == ERR_ATTRIBUTE_NOT_FOUND and ghost.rerr_op == request.op_code),
        ghost.rop == ATT_ERROR_RSP or ghost.rop == ATT_FIND_BY_TYPE_VALUE_RSP,
        writes_unchanged(old, ghost),
    ]


def fbtv_inv0(attributes, old, ghost):
    return [ghost.nresp == old.ghost.nresp, writes_unchanged(old, ghost), len(attributes) <= ghost.nok - old.ghost.nok]


def fbtv_inv1(attributes, old, ghost):
    return [ghost.nresp == old.ghost.nresp, writes_unchanged(old, ghost), len(attributes) > 0, len(attributes) <= ghost.nok - old.ghost.nok]


contract(
    'bumble.gatt_server:Server.on_att_find_by_type_value_request',
    key='bumble.gatt_server:Server.on_att_find_by_type_value_request@C11',
    prop='C11',
    params=dict(self=SERVER_ANY, bearer=BEARER, request=Inst('bumble.att:ATT_Find_By_Type_Value_Request#c11')),
    ghost=ANY_GHOST,
    requires=any_pre,
    ensures=fbtv_post,
    ensures_names=['one-response', 'match-only-after-a-read-past-the-gate', 'only-not-found-errors', 'response-kind', 'nothing-written'],
    invariants={0: fbtv_inv0, 1: fbtv_inv1},
    loop_locals={0: dict(attributes=AnyListOf(ATTR_H)), 1: dict(handles_information_list=ListOf(Bytes))},
    modifies=ANY_MOD,
    uses=[V_READ] + SKIP_POST_INIT,
    inline=ANY_INLINE,
    decorators_ok=RUN_IN_TASK,
    note='@run_in_task ignored: the coroutine body is what is verified; any number of attributes',
)


def rm_post(data_opcode):
    """Vol 3 Part F 3.4.4.7 / 3.4.4.11: if any of the reads is not permitted the answer is that error"""

    def post(self, bearer, request, old, ghost):
        return [
            ghost.nresp == old.ghost.nresp + 1,
            implies(ghost.rop == data_opcode, ghost.nref == old.ghost.nref),
            # the handle in error is the handle of the request's list that was being read
            implies(ghost.nref != old.ghost.nref, refusal_reported(ghost, request, bearer, ghost.req_handle)),
            ghost.nref <= old.ghost.nref + 1,
            writes_unchanged(old, ghost),
        ]

    return post


RM_NAMES = ['one-response', 'values-only-if-no-refusal', 'refusal-answered',
            'stops-at-first-refusal', 'nothing-written']


def rm_inv(_i, old, ghost):
    return [_i >= 0, ghost.nresp == old.ghost.nresp, ghost.nref == old.ghost.nref and writes_unchanged(old, ghost)]


ATT_READ_MULTIPLE_VARIABLE_RSP = 0x21  # Vol 3 Part F 3.4.8
for _name, _op, _ll in (
    ('on_att_read_multiple_request', ATT_READ_MULTIPLE_RSP, dict(values=ListOf(Bytes))),
    ('on_att_read_multiple_variable_request', ATT_READ_MULTIPLE_VARIABLE_RSP, dict(length_value_tuple_list=ListOf(TupleOf(Int, Bytes)))),
):
    contract(
        f'bumble.gatt_server:Server.{_name}',
        key=f'bumble.gatt_server:Server.{_name}@C11',
        prop='C11',
        params=dict(self=SERVER_ANY, bearer=BEARER, request=Inst('bumble.att:ATT_Read_Multiple_Request#c11')),
        ghost=ANY_GHOST,
        requires=any_pre,
        ensures=rm_post(_op),
        ensures_names=RM_NAMES,
        invariants={0: rm_inv},
        loop_locals={0: _ll},
        modifies=ANY_MOD,
        uses=[V_READ],
        inline=ANY_INLINE,
        decorators_ok=RUN_IN_TASK,
        note='@run_in_task ignored: the coroutine body is what is verified; any list of handles',
    )
