"""C12 group 4 (partial) -- handle assignment when the server database is built.

  Server.next_handle / Server.add_attribute: handles are 1-based positions in Server.attributes
  (attributes[i].handle == i + 1), which is what makes handle lookups, ranges and group ends line up.
Server.add_service (group ends, declaration value handle) is NOT under contract: see notes/C12/NOTES.md.
"""
from pyvc.contracts import ConcList, Inst, Int, OneOf, contract, model, same

model('bumble.att:Attribute#h', fields=dict(handle=Int, end_group_handle=Int))
ATTR_H = Inst('bumble.att:Attribute#h')
# bounded: the database already holds 0..3 attributes (the code is uniform in the length: 1 + len(attributes))
model('bumble.gatt_server:Server#h', fields=dict(attributes=ConcList(ATTR_H, 0)))


def positions(self):
    """attributes[i].handle == i + 1 for every attribute of the database"""
    ok = True
    for i in range(len(self.attributes)):  # concrete spine: unrolled
        ok = ok and self.attributes[i].handle == i + 1
    return ok


def same_prefix(new, old_list):
    ok = len(new) >= len(old_list)
    for i in range(len(old_list)):
        ok = ok and same(new[i], old_list[i])
    return ok


for _n in range(4):
    _server = Inst('bumble.gatt_server:Server#h', attributes=ConcList(ATTR_H, _n))
    contract(
        'bumble.gatt_server:Server.next_handle',
        key=f'bumble.gatt_server:Server.next_handle@n{_n}',
        prop='C12',
        params=dict(self=_server),
        ensures=lambda self, res: [res == len(self.attributes) + 1],
        ensures_names=['next-free-position'],
        modifies=[],
        note='bounded: 0..3 attributes already in the database',
    )

    contract(
        'bumble.gatt_server:Server.add_attribute',
        key=f'bumble.gatt_server:Server.add_attribute@n{_n}',
        prop='C12',
        params=dict(self=_server, attribute=ATTR_H),
        requires=lambda self: positions(self),
        ensures=lambda self, attribute, old: [
            len(self.attributes) == len(old.self.attributes) + 1,
            self.attributes[-1] is attribute,
            attribute.handle == len(self.attributes),
            attribute.end_group_handle == attribute.handle,
            positions(self),
            same_prefix(self.attributes, old.self.attributes),
        ],
        ensures_names=['one-more', 'appended-last', 'handle-is-position', 'group-of-one', 'positions-kept', 'others-keep-their-place'],
        modifies=['self.attributes', 'attribute.handle', 'attribute.end_group_handle'],
        inline=['Server.next_handle'],
        note='bounded: 0..3 attributes already in the database',
    )
