"""C08 — classic L2CAP channels, part 2: ClassicChannel data path, ChannelManager.send_pdu, L2CAP_PDU framing with FCS."""
import struct

from bumble import core, l2cap, utils
from pyvc.contracts import (NATIVE_UF, Any, Bool, Bytes, Callback, Inst, Int, IntRange, ListOf, OneOf, Opt, contract, forall, iff, implies,
                            ite, lemma, model, at, uf)
from spec.ertm import l2cap_header, le16, le16_bytes

ENVIRONMENT = [
    'Host.send_acl_sdu below ChannelManager.send_pdu is a recording stub here; fragmentation over ACL, the controller '
    'queue and reassembly are C05 / C04 (cited, not re-proved)',
    'ChannelManager.find_channel (the channel table) is a recording stub in ChannelManager.on_pdu: that the table maps '
    '(connection, cid) to the right channel is C09',
    'utils.crc_16 is used as a pure function of its argument with a 16-bit result (trusted, body not verified)',
]

CS = l2cap.ClassicChannel.State

# ---------------------------------------------------------------------------
# utils.crc_16: trusted functional view (pure, deterministic, 16-bit result).  Its body (a bit-serial CRC: 8 data-
# dependent branches per byte) is not verified: the symbolic execution of the unrolled inner loop forks 2^8 paths per
# byte and did not finish
# ---------------------------------------------------------------------------
NATIVE_UF['crc16'] = utils.crc_16
contract(
    'bumble.utils:crc_16',
    key='bumble.utils:crc_16@pure',
    params=dict(data=Bytes),
    returns=Int,
    ensures=lambda data, res: [res == uf('crc16', data), 0 <= res, res <= 0xFFFF],
    modifies=[],
    trusted=True,
    note='crc_16 is a pure function of its argument (no state, deterministic) with a result in 0..0xFFFF: its value is an uninterpreted '
    'function of the data; that it is the CRC-16 of Core Vol 3 Part A 3.3.5 is checked against the two test vectors of the '
    'specification only (tests/l2cap_test.py::test_fcs)',
)
USE_CRC = ['bumble.utils:crc_16@pure']


def fcs_of(cid, payload):
    """FCS of an L2CAP frame (Core Vol 3 Part A 3.3.5): CRC-16 over the basic header (length including the FCS, CID)
    and the information payload"""
    return uf('crc16', l2cap_header(len(payload) + 2, cid) + payload)


def frame_bytes(cid, payload, with_fcs):
    return ite(with_fcs, l2cap_header(len(payload) + 2, cid) + payload + le16_bytes(fcs_of(cid, payload)), l2cap_header(len(payload), cid) + payload)


# ---------------------------------------------------------------------------
# L2CAP_PDU.to_bytes (with and without FCS)
# ---------------------------------------------------------------------------
model('bumble.l2cap:L2CAP_PDU', fields=dict(cid=Int, payload=Bytes))
PDU = Inst('bumble.l2cap:L2CAP_PDU')

TO_BYTES = dict(
    params=dict(self=PDU, with_fcs=Bool),
    returns=Bytes,
    requires=lambda self: [0 <= self.cid and self.cid <= 0xFFFF and len(self.payload) <= 0xFFFF - 2],
    ensures=lambda self, with_fcs, res: [res == frame_bytes(self.cid, self.payload, with_fcs)],
    ensures_names=['header-payload-fcs'],
    modifies=[],
)
contract('bumble.l2cap:L2CAP_PDU.to_bytes', prop='C08', uses=USE_CRC, **TO_BYTES)
contract('bumble.l2cap:L2CAP_PDU.to_bytes', key='bumble.l2cap:L2CAP_PDU.to_bytes@callee', **TO_BYTES)


# ---------------------------------------------------------------------------
# ChannelManager.send_pdu
# ---------------------------------------------------------------------------
def host_send(ghost, handle, data):
    ghost.acl = ghost.acl + [data]
    ghost.acl_handle = handle


model('ghost:Host#c08', fields={}, methods={'send_acl_sdu': Callback('send_acl_sdu', effect=host_send)})
model('ghost:Conn#c08', fields=dict(handle=IntRange(0, 0xEFF), peer_address=Any))
model('bumble.l2cap:ChannelManager', fields=dict(_host=Inst('ghost:Host#c08')))
MGR = Inst('bumble.l2cap:ChannelManager')
CONN = Inst('ghost:Conn#c08')

contract(
    'bumble.l2cap:ChannelManager.send_pdu',
    prop='C08',
    params=dict(self=MGR, connection=CONN, cid=IntRange(0, 0xFFFF), pdu=Bytes, with_fcs=Bool),
    ghost=dict(acl=ListOf(Bytes), acl_handle=Int),
    requires=lambda pdu: len(pdu) <= 0xFFFF - 2,
    ensures=lambda self, connection, cid, pdu, with_fcs, old, ghost: [
        # exactly one L2CAP frame for the PDU goes to the ACL link of that connection, with the FCS iff asked for
        ghost.acl == old.ghost.acl + [frame_bytes(cid, pdu, with_fcs)],
        ghost.acl_handle == connection.handle,
    ],
    ensures_names=['one-frame', 'on-the-connection'],
    modifies=['ghost.acl', 'ghost.acl_handle'],
    uses=['bumble.l2cap:L2CAP_PDU.to_bytes@callee'],
    inline=['L2CAP_PDU.__init__', 'ChannelManager.host'],
    note='the S-frame objects a mode processor hands to send_pdu are converted by bytes(); this contract is stated for byte strings',
)


# ---------------------------------------------------------------------------
# ClassicChannel: write / send_pdu / on_pdu / on_sdu
# ---------------------------------------------------------------------------
def mgr_send(ghost, connection, cid, pdu, with_fcs):
    ghost.out = ghost.out + [bytes(pdu)]
    ghost.out_cid = cid
    ghost.out_fcs = with_fcs


def proc_send(ghost, sdu):
    ghost.to_proc = ghost.to_proc + [sdu]


def proc_on_pdu(ghost, pdu):
    ghost.rx = ghost.rx + [pdu]


def sink_call(ghost, sdu):
    ghost.sunk = ghost.sunk + [sdu]


model('ghost:Mgr#c08', fields={}, methods={'send_pdu': Callback('send_pdu', effect=mgr_send)})
model('ghost:Proc#c08', fields={}, methods={'send_sdu': Callback('send_sdu', effect=proc_send), 'on_pdu': Callback('on_pdu', effect=proc_on_pdu)})
model(
    'bumble.l2cap:ClassicChannel',
    fields=dict(
        manager=Inst('ghost:Mgr#c08'),
        connection=CONN,
        state=OneOf(CS.OPEN, CS.CLOSED, CS.WAIT_CONFIG, CS.WAIT_DISCONNECT),
        source_cid=IntRange(0, 0xFFFF),
        destination_cid=IntRange(0, 0xFFFF),
        fcs_enabled=Bool,
        processor=Inst('ghost:Proc#c08'),
        sink=Opt(Callback('sink', effect=sink_call)),
    ),
)
CHANNEL = Inst('bumble.l2cap:ClassicChannel')
CH_GHOST = dict(out=ListOf(Bytes), out_cid=Int, out_fcs=Bool, to_proc=ListOf(Bytes), rx=ListOf(Bytes), sunk=ListOf(Bytes))

contract(
    'bumble.l2cap:ClassicChannel.write',
    prop='C08',
    params=dict(self=CHANNEL, sdu=Bytes),
    ghost=CH_GHOST,
    ensures=lambda self, sdu, old, ghost: [ghost.to_proc == old.ghost.to_proc + [sdu]],
    ensures_names=['handed-to-the-mode-processor-once'],
    modifies=['ghost.to_proc'],
)

contract(
    'bumble.l2cap:ClassicChannel.send_pdu',
    prop='C08',
    params=dict(self=CHANNEL, pdu=Bytes),
    ghost=CH_GHOST,
    ensures=lambda self, pdu, old, ghost: [
        self.state == CS.OPEN,
        # to the peer's channel id, with this channel's FCS setting
        ghost.out == old.ghost.out + [pdu] and ghost.out_cid == self.destination_cid and ghost.out_fcs == self.fcs_enabled,
    ],
    ensures_names=['only-when-open', 'one-pdu-to-the-peer-cid'],
    raises={core.InvalidStateError: lambda self, old, ghost: [self.state != CS.OPEN, ghost.out == old.ghost.out]},
    modifies=['ghost.out', 'ghost.out_cid', 'ghost.out_fcs'],
)


def fcs_ok(self, pdu):
    """the last two octets of a received frame are the FCS of the rest under this channel's id (the frame was
    addressed to source_cid; its length field counted the FCS)"""
    return len(pdu) >= 2 and le16(pdu, len(pdu) - 2) == uf('crc16', l2cap_header(len(pdu), self.source_cid) + pdu[: len(pdu) - 2])


contract(
    'bumble.l2cap:ClassicChannel.on_pdu',
    prop='C08',
    params=dict(self=CHANNEL, pdu=Bytes),
    ghost=CH_GHOST,
    requires=lambda pdu: len(pdu) <= 0xFFFF,
    ensures=lambda self, pdu, old, ghost: [
        implies(not self.fcs_enabled, ghost.rx == old.ghost.rx + [pdu]),
        # with the FCS option a frame is passed on, without its FCS, exactly when the FCS is right ("intact")
        implies(self.fcs_enabled and fcs_ok(self, pdu), ghost.rx == old.ghost.rx + [pdu[: len(pdu) - 2]]),
        implies(self.fcs_enabled and not fcs_ok(self, pdu), ghost.rx == old.ghost.rx),
    ],
    ensures_names=['no-fcs-unchanged', 'good-fcs-stripped-and-delivered', 'bad-fcs-not-delivered'],
    modifies=['ghost.rx'],
    uses=USE_CRC,
)

contract(
    'bumble.l2cap:ClassicChannel.on_sdu',
    prop='C08',
    params=dict(self=CHANNEL, sdu=Bytes),
    ghost=CH_GHOST,
    ensures=lambda self, sdu, old, ghost: [ghost.sunk == old.ghost.sunk + ([sdu] if self.sink is not None else [])],
    ensures_names=['to-the-sink-once'],
    modifies=['ghost.sunk'],
)


# ---------------------------------------------------------------------------
# lemma: a frame built by the sending side with the FCS option reaches the receiving processor unchanged
# ---------------------------------------------------------------------------
def lemma_fcs_roundtrip(chan, cid, payload):
    """sender: L2CAP_PDU(cid, payload).to_bytes(with_fcs=True); link: intact (C05); receiver: L2CAP_PDU.from_bytes
    (host) then ClassicChannel.on_pdu of the channel whose source_cid is the frame's cid, with the FCS option on"""
    frame = l2cap.L2CAP_PDU(cid, payload).to_bytes(with_fcs=True)
    got = l2cap.L2CAP_PDU.from_bytes(frame)
    assert got.cid == cid
    chan.on_pdu(got.payload)


lemma(
    'fcs_roundtrip',
    lemma_fcs_roundtrip,
    prop='C08',
    params=dict(chan=Inst('bumble.l2cap:ClassicChannel', fcs_enabled=OneOf(True)), cid=IntRange(0, 0xFFFF), payload=Bytes),
    ghost=CH_GHOST,
    requires=lambda chan, cid, payload: [chan.source_cid == cid, len(payload) <= 0xFFFF - 2],
    ensures=lambda chan, payload, old, ghost: [ghost.rx == old.ghost.rx + [payload]],
    ensures_names=['processor-receives-exactly-the-payload'],
    modifies=['ghost.rx'],
    uses=['bumble.l2cap:L2CAP_PDU.to_bytes@callee', 'bumble.l2cap:ClassicChannel.on_pdu'],
    inline=['L2CAP_PDU.__init__', 'L2CAP_PDU.from_bytes'],
)


# ---------------------------------------------------------------------------
# set-up: per-handler contracts (the agreement of the two ends is a two-party property: not covered)
# ---------------------------------------------------------------------------
CR = l2cap.L2CAP_Configure_Response.Result


def su_send_control(ghost, frame):
    ghost.ctl = ghost.ctl + 1
    ghost.ctl_last = frame


def su_emit(ghost, event):
    ghost.emits = ghost.emits + 1
    ghost.emit_last = event


def su_set_result(ghost, value):
    ghost.resolved = ghost.resolved + 1


def su_next_identifier(ghost, connection):
    return ghost.ident


model('ghost:Future#c08', fields={}, methods={'set_result': Callback('set_result', effect=su_set_result)})
model('ghost:Mgr#setup', fields={}, methods={'next_identifier': Callback('next_identifier', effect=su_next_identifier)})
model(
    'bumble.l2cap:ClassicChannel#setup',
    fields=dict(
        manager=Inst('ghost:Mgr#setup'),
        connection=CONN,
        state=OneOf(CS.CLOSED, CS.WAIT_CONNECT_RSP, CS.WAIT_CONFIG, CS.WAIT_CONFIG_REQ_RSP, CS.WAIT_CONFIG_RSP, CS.WAIT_CONFIG_REQ, CS.WAIT_CONTROL_IND, CS.OPEN, CS.WAIT_DISCONNECT),
        source_cid=IntRange(0, 0xFFFF),
        destination_cid=IntRange(0, 0xFFFF),
        connection_result=Opt(Inst('ghost:Future#c08')),
    ),
    methods={'send_control_frame': Callback('send_control_frame', effect=su_send_control), 'emit': Callback('emit', effect=su_emit)},
)
model('bumble.l2cap:L2CAP_Configure_Response', fields=dict(identifier=IntRange(0, 255), source_cid=IntRange(0, 0xFFFF), flags=Int, result=IntRange(0, 0xFFFF), options=Bytes))
SU_GHOST = dict(ctl=Int, ctl_last=Any, emits=Int, emit_last=Any, resolved=Int, ident=IntRange(0, 255))

contract(
    'bumble.l2cap:ClassicChannel.on_configure_response',
    prop='C08',
    params=dict(self=Inst('bumble.l2cap:ClassicChannel#setup'), response=Inst('bumble.l2cap:L2CAP_Configure_Response')),
    ghost=SU_GHOST,
    ensures=lambda self, response, old, ghost: [
        # the channel opens exactly when the peer accepts our configuration after we accepted the peer's
        # (WAIT_CONFIG_RSP: our response to the peer's request has been sent)
        iff(self.state == CS.OPEN and old.self.state != CS.OPEN, response.result == CR.SUCCESS and (old.self.state == CS.WAIT_CONFIG_RSP or old.self.state == CS.WAIT_CONTROL_IND)),
        # 'open' is announced once, and the pending connect() is released, exactly then
        ghost.emits == old.ghost.emits + (1 if self.state == CS.OPEN and old.self.state != CS.OPEN else 0),
        implies(self.state == CS.OPEN and old.self.state != CS.OPEN, self.connection_result is None and ghost.resolved == old.ghost.resolved + (1 if old.self.connection_result is not None else 0)),
        # our request accepted first: wait for the peer's request
        implies(response.result == CR.SUCCESS and old.self.state == CS.WAIT_CONFIG_REQ_RSP, self.state == CS.WAIT_CONFIG_REQ),
        # no other state change
        implies(not (response.result == CR.SUCCESS and (old.self.state == CS.WAIT_CONFIG_REQ_RSP or old.self.state == CS.WAIT_CONFIG_RSP or old.self.state == CS.WAIT_CONTROL_IND)), self.state == old.self.state),
        # unacceptable parameters: the request is repeated with the options the peer proposed
        ghost.ctl == old.ghost.ctl + (1 if response.result == CR.FAILURE_UNACCEPTABLE_PARAMETERS else 0),
    ],
    ensures_names=['opens-iff-both-directions-configured', 'open-announced-once', 'connect-released', 'request-accepted-first', 'no-other-transition', 'reconfigure-on-unacceptable'],
    modifies=['self.state', 'self.connection_result', 'ghost.ctl', 'ghost.ctl_last', 'ghost.emits', 'ghost.emit_last', 'ghost.resolved'],
    inline=['ClassicChannel._change_state', 'ClassicChannel.__str__', 'L2CAP_Configure_Request.__init__', 'L2CAP_Control_Frame.*'],
)


# the option decoder: total (any byte string gives a list of (type, value) pairs, never an exception)
from pyvc.contracts import TupleOf  # noqa: E402

DECODE = dict(
    params=dict(data=Bytes),
    returns=ListOf(TupleOf(Int, Bytes)),
    ensures=lambda data, res: [len(res) >= 0],
    ensures_names=['total'],
    modifies=[],
)
contract(
    'bumble.l2cap:L2CAP_Control_Frame.decode_configuration_options',
    prop='C08',
    invariants={0: lambda options: [len(options) >= 0]},
    decreases={0: lambda data: len(data)},
    loop_locals={0: {'options': ListOf(TupleOf(Int, Bytes))}},
    **DECODE,
)
contract('bumble.l2cap:L2CAP_Control_Frame.decode_configuration_options', key='bumble.l2cap:L2CAP_Control_Frame.decode_configuration_options@callee', **DECODE)


# on_configure_request (profile 'skeleton': option values are uninterpreted; what is tracked is the channel state, the
# control frames sent and the 'open' announcement)
def su_send_control_k(ghost, frame):
    ghost.ctl = ghost.ctl + 1
    ghost.disc = ghost.disc + (1 if isinstance(frame, l2cap.L2CAP_Disconnection_Request) else 0)
    ghost.rsp = ghost.rsp + (1 if isinstance(frame, l2cap.L2CAP_Configure_Response) else 0)
    if isinstance(frame, l2cap.L2CAP_Configure_Response):
        # what the peer is told: the result and the options echoed (the list last handed to the option encoder: the
        # `options=` argument of this response)
        ghost.result = frame.result
        ghost.replied = ghost.enc_arg


def su_encode(ghost, options):
    """recording stub for L2CAP_Control_Frame.encode_configuration_options: remembers the (type, value) list"""
    ghost.enc_arg = options


FCS_T = int(l2cap.L2CAP_Configure_Request.ParameterType.FCS)
OPTS = ListOf(TupleOf(Int, Bytes))
# the option decoder as the handler sees it: the decoded list is recorded in the ghost state (so that the handler's
# postcondition can speak about "the options of this request"); otherwise the verified contract DECODE above
contract(
    'bumble.l2cap:L2CAP_Control_Frame.decode_configuration_options',
    key='bumble.l2cap:L2CAP_Control_Frame.decode_configuration_options@recorded',
    ghost=dict(decoded=OPTS),
    **dict(DECODE, ensures=lambda data, res, ghost: [len(res) >= 0, ghost.decoded == res], ensures_names=['total', 'recorded'], modifies=['ghost.decoded']),
)


def no_fcs_option(d, lo):
    """no option from position lo on is an FCS option"""
    return forall(lo, len(d), lambda k: d[k][0] != FCS_T)


def fcs_requested(d, j):
    """option j asks for FCS (value octet != 0: 16-bit FCS; 0: no FCS; Core Vol 3 Part A 5.5)"""
    return d[j][1][0] != 0


model(
    'bumble.l2cap:ClassicChannel#cfgreq',
    fields=dict(
        state=OneOf(CS.CLOSED, CS.WAIT_CONNECT_RSP, CS.WAIT_CONFIG, CS.WAIT_CONFIG_REQ_RSP, CS.WAIT_CONFIG_RSP, CS.WAIT_CONFIG_REQ, CS.OPEN, CS.WAIT_DISCONNECT),
        connection_result=Opt(Inst('ghost:Future#c08')),
        fcs_enabled=Bool,
    ),
    methods={'send_control_frame': Callback('send_control_frame', effect=su_send_control_k), 'emit': Callback('emit', effect=su_emit)},
)
def cfgreq_fcs_post(self, old, ghost):
    """value level, FCS option (the other option values stay uninterpreted): what this end uses afterwards is what it
    told the peer it accepted.  A request is accepted when a response with result SUCCESS is sent; it then echoes every
    option of the request, and if the request has an FCS option (the last one, at position J, counts) `fcs_enabled` is
    exactly what that option asks for -- on or off; a request without an FCS option leaves the setting alone"""
    d = ghost.decoded
    j = ghost.J
    accepted = ghost.rsp == old.ghost.rsp + 1 and ghost.result == CR.SUCCESS
    return [
        implies(accepted, ghost.replied == d),
        implies(accepted and 0 <= j and j < len(d) and d[j][0] == FCS_T and no_fcs_option(d, j + 1), self.fcs_enabled == fcs_requested(d, j)),
        implies(no_fcs_option(d, 0), self.fcs_enabled == old.self.fcs_enabled),
    ]


def cfgreq_inv(self, old, ghost, options, replied_options, result, _i):
    j = ghost.J
    return [
        self.state == old.self.state, ghost.ctl == old.ghost.ctl, ghost.disc == old.ghost.disc, ghost.rsp == old.ghost.rsp, ghost.emits == old.ghost.emits,
        # inside the loop every option so far has been accepted and echoed
        ghost.decoded == options,
        0 <= _i and _i <= len(options),
        result == CR.SUCCESS,
        replied_options == options[:_i],
        # the FCS setting follows the last FCS option seen so far
        implies(0 <= j and j < _i and options[j][0] == FCS_T and no_fcs_option(options, j + 1), self.fcs_enabled == fcs_requested(options, j)),
        implies(no_fcs_option(options, 0), self.fcs_enabled == old.self.fcs_enabled),
    ]


contract(
    'bumble.l2cap:ClassicChannel.on_configure_request',
    prop='C08',
    profile='skeleton',
    params=dict(self=Inst('bumble.l2cap:ClassicChannel#cfgreq'), request=Any),
    # ghost.J: any position in the option list (universally quantified like every ghost input)
    ghost=dict(ctl=Int, disc=Int, rsp=Int, emits=Int, emit_last=Any, resolved=Int, decoded=OPTS, enc_arg=Any, replied=OPTS, result=Int, J=Int),
    ensures=lambda self, old, ghost: [
        # OPEN is entered only from WAIT_CONFIG_REQ (our own request has been accepted before), with one SUCCESS response sent
        implies(self.state == CS.OPEN and old.self.state != CS.OPEN, old.self.state == CS.WAIT_CONFIG_REQ and ghost.emits == old.ghost.emits + 1 and ghost.disc == old.ghost.disc),
        # a refused mode (mismatch / unsupported): a disconnection request is sent, no response, no 'open'
        implies(ghost.disc > old.ghost.disc, self.state == CS.WAIT_DISCONNECT and ghost.disc == old.ghost.disc + 1 and ghost.rsp == old.ghost.rsp and ghost.emits == old.ghost.emits),
        # a request in any other state is ignored
        implies(old.self.state != CS.WAIT_CONFIG and old.self.state != CS.WAIT_CONFIG_REQ and old.self.state != CS.WAIT_CONFIG_REQ_RSP, self.state == old.self.state and ghost.ctl == old.ghost.ctl and ghost.emits == old.ghost.emits),
        # at most one configuration response per request
        ghost.rsp <= old.ghost.rsp + 1,
    ] + cfgreq_fcs_post(self, old, ghost),
    ensures_names=['opens-only-after-own-request-accepted', 'refused-mode-disconnects', 'ignored-in-other-states', 'one-response',
                   'accepted-options-echoed', 'accepted-fcs-option-is-used', 'fcs-unchanged-without-fcs-option'],
    # malformed option values (an MTU option that is not 2 bytes, a short retransmission option, an empty FCS option:
    # never built by bumble's send_configure_request) make struct / indexing raise: the channel is not opened by such a
    # request; what the caller does with the exception is robustness (C17), not this property
    # (skeleton profile: struct.pack of the uninterpreted own MTU / MPS in send_configure_request counts as possibly raising too)
    raises={
        struct.error: lambda self, old, ghost: [self.state != CS.OPEN or old.self.state == CS.OPEN, ghost.emits == old.ghost.emits, ghost.disc == old.ghost.disc],
        IndexError: lambda self, old, ghost: [self.state == old.self.state, ghost.ctl == old.ghost.ctl, ghost.emits == old.ghost.emits],
    },
    invariants={0: cfgreq_inv},
    loop_locals={0: {'replied_options': ListOf(TupleOf(Int, Bytes))}},
    modifies=['self.*', 'ghost.ctl', 'ghost.disc', 'ghost.rsp', 'ghost.emits', 'ghost.emit_last', 'ghost.resolved', 'ghost.decoded', 'ghost.enc_arg', 'ghost.replied', 'ghost.result'],
    stubs={l2cap.L2CAP_Control_Frame.encode_configuration_options: Callback('encode_configuration_options', effect=su_encode, returns=Bytes)},
    uses=['bumble.l2cap:L2CAP_Control_Frame.decode_configuration_options@recorded'],
    inline=['ClassicChannel._change_state', 'ClassicChannel._disconnect_sync', 'ClassicChannel._abort_connection_result', 'ClassicChannel.__str__',
            'ClassicChannel.send_configure_request'],
)
