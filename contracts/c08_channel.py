"""C08 — classic L2CAP channels, part 2: ClassicChannel data path, ChannelManager.send_pdu, L2CAP_PDU framing with FCS."""
import struct

from bumble import core, l2cap, utils
from pyvc.contracts import (NATIVE_UF, Any, Bool, Bytes, Callback, Inst, Int, IntRange, ListOf, OneOf, Opt, contract, iff, implies,
                            ite, lemma, model, at, uf)
from spec.ertm import l2cap_header, le16, le16_bytes

ENVIRONMENT = [
    'Host.send_acl_sdu below ChannelManager.send_pdu is a recording stub here; fragmentation over ACL, the controller '
    'queue and reassembly are C05 / C04 (cited, not re-proved)',
    'ChannelManager.find_channel (the channel table) is a recording stub in ChannelManager.on_pdu: that the table maps '
    '(connection, cid) to the right channel is C09',
    'utils.crc_16 is used as a pure function of its argument with a 16-bit result (trusted, body not verified)',
]

CS = l2cap.ClassicChannel.State

# ---------------------------------------------------------------------------
# utils.crc_16: trusted functional view (pure, deterministic, 16-bit result).  Its body (a bit-serial CRC: 8 data-
# dependent branches per byte) is not verified: the symbolic execution of the unrolled inner loop forks 2^8 paths per
# byte and did not finish
# ---------------------------------------------------------------------------
NATIVE_UF['crc16'] = utils.crc_16
contract(
    'bumble.utils:crc_16',
    key='bumble.utils:crc_16@pure',
    params=dict(data=Bytes),
    returns=Int,
    ensures=lambda data, res: [res == uf('crc16', data), 0 <= res, res <= 0xFFFF],
    modifies=[],
    trusted=True,
    note='crc_16 is a pure function of its argument (no state, deterministic) with a result in 0..0xFFFF: its value is an uninterpreted '
    'function of the data; that it is the CRC-16 of Core Vol 3 Part A 3.3.5 is checked against the two test vectors of the '
    'specification only (tests/l2cap_test.py::test_fcs)',
)
USE_CRC = ['bumble.utils:crc_16@pure']


def fcs_of(cid, payload):
    """FCS of an L2CAP frame (Core Vol 3 Part A 3.3.5): CRC-16 over the basic header (length including the FCS, CID)
    and the information payload"""
    return uf('crc16', l2cap_header(len(payload) + 2, cid) + payload)


def frame_bytes(cid, payload, with_fcs):
    return ite(with_fcs, l2cap_header(len(payload) + 2, cid) + payload + le16_bytes(fcs_of(cid, payload)), l2cap_header(len(payload), cid) + payload)


# ---------------------------------------------------------------------------
# L2CAP_PDU.to_bytes (with and without FCS)
# ---------------------------------------------------------------------------
model('bumble.l2cap:L2CAP_PDU', fields=dict(cid=Int, payload=Bytes))
PDU = Inst('bumble.l2cap:L2CAP_PDU')

TO_BYTES = dict(
    params=dict(self=PDU, with_fcs=Bool),
    returns=Bytes,
    requires=lambda self: [0 <= self.cid and self.cid <= 0xFFFF and len(self.payload) <= 0xFFFF - 2],
    ensures=lambda self, with_fcs, res: [res == frame_bytes(self.cid, self.payload, with_fcs)],
    ensures_names=['header-payload-fcs'],
    modifies=[],
)
contract('bumble.l2cap:L2CAP_PDU.to_bytes', prop='C08', uses=USE_CRC, **TO_BYTES)
contract('bumble.l2cap:L2CAP_PDU.to_bytes', key='bumble.l2cap:L2CAP_PDU.to_bytes@callee', **TO_BYTES)


# ---------------------------------------------------------------------------
# ChannelManager.send_pdu
# ---------------------------------------------------------------------------
def host_send(ghost, handle, data):
    ghost.acl = ghost.acl + [data]
    ghost.acl_handle = handle


model('ghost:Host#c08', fields={}, methods={'send_acl_sdu': Callback('send_acl_sdu', effect=host_send)})
model('ghost:Conn#c08', fields=dict(handle=IntRange(0, 0xEFF), peer_address=Any))
model('bumble.l2cap:ChannelManager', fields=dict(_host=Inst('ghost:Host#c08')))
MGR = Inst('bumble.l2cap:ChannelManager')
CONN = Inst('ghost:Conn#c08')

contract(
    'bumble.l2cap:ChannelManager.send_pdu',
    prop='C08',
    params=dict(self=MGR, connection=CONN, cid=IntRange(0, 0xFFFF), pdu=Bytes, with_fcs=Bool),
    ghost=dict(acl=ListOf(Bytes), acl_handle=Int),
    requires=lambda pdu: len(pdu) <= 0xFFFF - 2,
    ensures=lambda self, connection, cid, pdu, with_fcs, old, ghost: [
        # exactly one L2CAP frame for the PDU goes to the ACL link of that connection, with the FCS iff asked for
        ghost.acl == old.ghost.acl + [frame_bytes(cid, pdu, with_fcs)],
        ghost.acl_handle == connection.handle,
    ],
    ensures_names=['one-frame', 'on-the-connection'],
    modifies=['ghost.acl', 'ghost.acl_handle'],
    uses=['bumble.l2cap:L2CAP_PDU.to_bytes@callee'],
    inline=['L2CAP_PDU.__init__', 'ChannelManager.host'],
    note='the S-frame objects a mode processor hands to send_pdu are converted by bytes(); this contract is stated for byte strings',
)


# ---------------------------------------------------------------------------
# ClassicChannel: write / send_pdu / on_pdu / on_sdu
# ---------------------------------------------------------------------------
def mgr_send(ghost, connection, cid, pdu, with_fcs):
    ghost.out = ghost.out + [bytes(pdu)]
    ghost.out_cid = cid
    ghost.out_fcs = with_fcs


def proc_send(ghost, sdu):
    ghost.to_proc = ghost.to_proc + [sdu]


def proc_on_pdu(ghost, pdu):
    ghost.rx = ghost.rx + [pdu]


def sink_call(ghost, sdu):
    ghost.sunk = ghost.sunk + [sdu]


model('ghost:Mgr#c08', fields={}, methods={'send_pdu': Callback('send_pdu', effect=mgr_send)})
model('ghost:Proc#c08', fields={}, methods={'send_sdu': Callback('send_sdu', effect=proc_send), 'on_pdu': Callback('on_pdu', effect=proc_on_pdu)})
model(
    'bumble.l2cap:ClassicChannel',
    fields=dict(
        manager=Inst('ghost:Mgr#c08'),
        connection=CONN,
        state=OneOf(CS.OPEN, CS.CLOSED, CS.WAIT_CONFIG, CS.WAIT_DISCONNECT),
        source_cid=IntRange(0, 0xFFFF),
        destination_cid=IntRange(0, 0xFFFF),
        fcs_enabled=Bool,
        processor=Inst('ghost:Proc#c08'),
        sink=Opt(Callback('sink', effect=sink_call)),
    ),
)
CHANNEL = Inst('bumble.l2cap:ClassicChannel')
CH_GHOST = dict(out=ListOf(Bytes), out_cid=Int, out_fcs=Bool, to_proc=ListOf(Bytes), rx=ListOf(Bytes), sunk=ListOf(Bytes))

contract(
    'bumble.l2cap:ClassicChannel.write',
    prop='C08',
    params=dict(self=CHANNEL, sdu=Bytes),
    ghost=CH_GHOST,
    ensures=lambda self, sdu, old, ghost: [ghost.to_proc == old.ghost.to_proc + [sdu]],
    ensures_names=['handed-to-the-mode-processor-once'],
    modifies=['ghost.to_proc'],
)

contract(
    'bumble.l2cap:ClassicChannel.send_pdu',
    prop='C08',
    params=dict(self=CHANNEL, pdu=Bytes),
    ghost=CH_GHOST,
    ensures=lambda self, pdu, old, ghost: [
        self.state == CS.OPEN,
        # to the peer's channel id, with this channel's FCS setting
        ghost.out == old.ghost.out + [pdu] and ghost.out_cid == self.destination_cid and ghost.out_fcs == self.fcs_enabled,
    ],
    ensures_names=['only-when-open', 'one-pdu-to-the-peer-cid'],
    raises={core.InvalidStateError: lambda self, old, ghost: [self.state != CS.OPEN, ghost.out == old.ghost.out]},
    modifies=['ghost.out', 'ghost.out_cid', 'ghost.out_fcs'],
)


def fcs_ok(self, pdu):
    """the last two octets of a received frame are the FCS of the rest under this channel's id (the frame was
    addressed to source_cid; its length field counted the FCS)"""
    return len(pdu) >= 2 and le16(pdu, len(pdu) - 2) == uf('crc16', l2cap_header(len(pdu), self.source_cid) + pdu[: len(pdu) - 2])


contract(
    'bumble.l2cap:ClassicChannel.on_pdu',
    prop='C08',
    params=dict(self=CHANNEL, pdu=Bytes),
    ghost=CH_GHOST,
    requires=lambda pdu: len(pdu) <= 0xFFFF,
    ensures=lambda self, pdu, old, ghost: [
        implies(not self.fcs_enabled, ghost.rx == old.ghost.rx + [pdu]),
        # with the FCS option a frame is passed on, without its FCS, exactly when the FCS is right ("intact")
        implies(self.fcs_enabled and fcs_ok(self, pdu), ghost.rx == old.ghost.rx + [pdu[: len(pdu) - 2]]),
        implies(self.fcs_enabled and not fcs_ok(self, pdu), ghost.rx == old.ghost.rx),
    ],
    ensures_names=['no-fcs-unchanged', 'good-fcs-stripped-and-delivered', 'bad-fcs-not-delivered'],
    modifies=['ghost.rx'],
    uses=USE_CRC,
)

contract(
    'bumble.l2cap:ClassicChannel.on_sdu',
    prop='C08',
    params=dict(self=CHANNEL, sdu=Bytes),
    ghost=CH_GHOST,
    ensures=lambda self, sdu, old, ghost: [ghost.sunk == old.ghost.sunk + ([sdu] if self.sink is not None else [])],
    ensures_names=['to-the-sink-once'],
    modifies=['ghost.sunk'],
)


# ---------------------------------------------------------------------------
# lemma: a frame built by the sending side with the FCS option reaches the receiving processor unchanged
# ---------------------------------------------------------------------------
def lemma_fcs_roundtrip(chan, cid, payload):
    """sender: L2CAP_PDU(cid, payload).to_bytes(with_fcs=True); link: intact (C05); receiver: L2CAP_PDU.from_bytes
    (host) then ClassicChannel.on_pdu of the channel whose source_cid is the frame's cid, with the FCS option on"""
    frame = l2cap.L2CAP_PDU(cid, payload).to_bytes(with_fcs=True)
    got = l2cap.L2CAP_PDU.from_bytes(frame)
    assert got.cid == cid
    chan.on_pdu(got.payload)


lemma(
    'fcs_roundtrip',
    lemma_fcs_roundtrip,
    prop='C08',
    params=dict(chan=Inst('bumble.l2cap:ClassicChannel', fcs_enabled=OneOf(True)), cid=IntRange(0, 0xFFFF), payload=Bytes),
    ghost=CH_GHOST,
    requires=lambda chan, cid, payload: [chan.source_cid == cid, len(payload) <= 0xFFFF - 2],
    ensures=lambda chan, payload, old, ghost: [ghost.rx == old.ghost.rx + [payload]],
    ensures_names=['processor-receives-exactly-the-payload'],
    modifies=['ghost.rx'],
    uses=['bumble.l2cap:L2CAP_PDU.to_bytes@callee', 'bumble.l2cap:ClassicChannel.on_pdu'],
    inline=['L2CAP_PDU.__init__', 'L2CAP_PDU.from_bytes'],
)
