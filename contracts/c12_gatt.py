"""C12 -- a GATT client sees exactly the server's database, values and notifications.

Group 3 (this part): delivery kind and gating on the server side
  Server._notify_single_subscriber / _indicate_single_bearer   what goes on the wire, gated by the CCCD
  Server.notify_subscriber / indicate_subscriber               which single-bearer routine, for which bearers
  Server._notify_or_indicate_subscribers / notify_subscribers / indicate_subscribers
"""
import asyncio

from bumble import att, l2cap
from pyvc.contracts import (Any, Bool, Bytes, Callback, EmptyDict, Inst, Int, IntRange, ListOf, OneOf, Opaque, Opt,
                            TupleOf, contract, implies, model)
from spec.gatt import (ATT_HANDLE_VALUE_IND, ATT_HANDLE_VALUE_NTF, KIND_INDICATE, KIND_NOTIFY, cccd_bit,
                       handle_value_pdu, truncated)

ENVIRONMENT = [
    'asyncio scheduling (A1): code between two awaits is atomic; tasks created by asyncio.create_task are run to '
    'completion one after the other (their interleaving at awaits is not explored)',
    'the per-bearer asyncio.Semaphore that serialises indications and the future that '
    'on_att_handle_value_confirmation resolves are environment: asyncio.wait_for either returns (confirmation '
    'arrived) or raises asyncio.TimeoutError',
    'Server.subscribers is observed through the lookups the code performs (get / items / setdefault): '
    'a bearer\'s CCCD table is absent, empty, or holds one entry (key, value) with a symbolic key -- exact for '
    'lookups of one handle; the table of bearers iterated by _notify_or_indicate_subscribers is bounded to <= 2 bearers',
    'Attribute.read_value / encode_value are callbacks returning an arbitrary byte string (C11 covers read_value)',
    'dispatchers are proved against recorded calls of _notify_single_subscriber / _indicate_single_bearer; the '
    'composition with the contracts of those two functions is by name, not re-proved through the dispatcher',
]

ATT_CID = 0x0004  # Vol 3 Part A 2.1: fixed channel of the Attribute Protocol
EATT_PSM = 0x0027  # Assigned numbers: Enhanced ATT


# ---------------------------------------------------------------------------
# bearers: an ACL connection (un-enhanced bearer) or an L2CAP enhanced-credit channel (EATT)
# ghost fields g_*: identity of the bearer in traces and the bearer's row of Server.subscribers
# ---------------------------------------------------------------------------
def eatt_write(ghost, pdu):
    ghost.sent = ghost.sent + [(-1, pdu)]


def dev_send_l2cap_pdu(ghost, handle, cid, pdu):
    assert cid == ATT_CID
    ghost.sent = ghost.sent + [(handle, pdu)]


G_ROW = dict(g_id=Int, g_mode=IntRange(0, 2), g_key=Int, g_cccd=Bytes)
model('bumble.device:Connection#b', fields=dict(handle=IntRange(0, 0xEFF), att_mtu=IntRange(23, 0xFFFF), **G_ROW))
model(
    'bumble.l2cap:LeCreditBasedChannel#b',
    # connection / source_cid: only read by log lines (needed when a counter-model is replayed natively)
    fields=dict(att_mtu=IntRange(23, 0xFFFF), psm=Int, write=Callback('write', effect=eatt_write), source_cid=IntRange(0x40, 0xFFFF),
                connection=Inst('bumble.device:Connection#b'), **G_ROW),
)
CONN = Inst('bumble.device:Connection#b')
CHAN = Inst('bumble.l2cap:LeCreditBasedChannel#b')
BEARER = OneOf(CONN, CHAN)


def is_enh(bearer):
    return isinstance(bearer, l2cap.LeCreditBasedChannel)


def row_of(bearer):
    """the bearer's row of Server.subscribers as a real dict: g_mode 0 = no row, 1 = empty row,
    2 = a row holding the entry g_key -> g_cccd"""
    if bearer.g_mode == 0:
        return None
    d = {}
    if bearer.g_mode == 2:
        d[bearer.g_key] = bearer.g_cccd
    return d


def cccd_set(bearer, handle, bit):
    """the CCCD this bearer wrote for `handle` has `bit` set (Vol 3 Part G 3.3.3.3)"""
    return bearer.g_mode == 2 and bearer.g_key == handle and cccd_bit(bearer.g_cccd, bit)


def has_entry(bearer, handle):
    """the bearer's row has a non-empty value under `handle`"""
    return bearer.g_mode == 2 and bearer.g_key == handle and len(bearer.g_cccd) > 0


def subs_get(ghost, bearer):
    return row_of(bearer)


model('ghost:SubsTable', fields={}, methods={'get': Callback('get', effect=subs_get)})
model('ghost:Device', fields={}, methods={'send_l2cap_pdu': Callback('send_l2cap_pdu', effect=dev_send_l2cap_pdu)})


# ---------------------------------------------------------------------------
# the attribute being notified
# ---------------------------------------------------------------------------
def attr_read(ghost, bearer):
    ghost.reads = ghost.reads + 1
    if ghost.read_fails:
        raise att.ATT_Error(error_code=att.ATT_UNLIKELY_ERROR_ERROR)
    return ghost.src


def attr_encode(ghost, value):
    ghost.encoded = value
    return ghost.src


model(
    'bumble.att:Attribute#a',
    fields=dict(handle=IntRange(0, 0xFFFF)),
    methods={
        'read_value': Callback('read_value', effect=attr_read, is_async=True, raises=(att.ATT_Error,)),
        'encode_value': Callback('encode_value', effect=attr_encode),
    },
)
ATTR = Inst('bumble.att:Attribute#a')


# ---------------------------------------------------------------------------
# Server, single-bearer routines
# ---------------------------------------------------------------------------
def sem_factory():
    return 'semaphore'


def none_factory():
    return None


def wait_for(ghost, fut, timeout):
    # the confirmation is awaited after the indication went out, on the future created for it
    assert len(ghost.sent) == ghost.n0 + 1
    assert fut is ghost.fut
    ghost.waits = ghost.waits + 1
    if ghost.times_out:
        raise asyncio.TimeoutError()


model('ghost:Loop', fields={}, methods={'create_future': Callback('create_future', effect=lambda ghost: ghost.fut)})
ASYNCIO_STUBS = {
    asyncio.get_running_loop: Callback('get_running_loop', effect=lambda ghost: ghost.loop),
    asyncio.wait_for: Callback('wait_for', effect=wait_for, is_async=True, raises=(asyncio.TimeoutError,)),
}

model(
    'bumble.gatt_server:Server',
    fields=dict(
        subscribers=Inst('ghost:SubsTable'),
        device=Inst('ghost:Device'),
        indication_semaphores=EmptyDict(sem_factory),
        pending_confirmations=EmptyDict(none_factory),
    ),
)
SERVER = Inst('bumble.gatt_server:Server')
SENT = ListOf(TupleOf(Int, Bytes))  # (connection handle | -1 for an EATT channel write, PDU bytes)
SINGLE_GHOST = dict(sent=SENT, reads=Int, read_fails=Bool, src=Bytes, encoded=Bytes, n0=Int, waits=Int, times_out=Bool,
                    fut=Opaque('fut'), loop=Inst('ghost:Loop'))
PDU_INLINE = ['bumble.att:is_enhanced_bearer', 'Server.send_gatt_pdu', 'ATT_PDU.__bytes__', 'ATT_PDU.payload',
              'HCI_Object.dict_to_bytes', 'HCI_Object.serialize_field', 'ATT_Error.__init__', 'BaseError.__init__']


def chan_of(bearer):
    return -1 if is_enh(bearer) else bearer.handle


def single_post(opcode, bit, self, bearer, attribute, value, force, old, ghost):
    """exactly one PDU of the requested kind, on this bearer, iff forced or the CCCD bit is set;
    its value is the attribute value cut to ATT_MTU-3 and otherwise unchanged"""
    send = force or cccd_set(bearer, attribute.handle, bit)
    pdu = handle_value_pdu(opcode, attribute.handle, truncated(ghost.src, bearer.att_mtu))
    return [
        implies(send, ghost.sent == old.ghost.sent + [(chan_of(bearer), pdu)]),
        implies(not send, ghost.sent == old.ghost.sent),
        # the value comes from the attribute (read for this bearer) or from encoding the given value
        implies(send and value is None, ghost.reads == old.ghost.reads + 1),
        implies(send and value is not None, ghost.reads == old.ghost.reads and ghost.encoded == value),
    ]


SINGLE_NAMES = ['sent-iff-forced-or-cccd-bit', 'nothing-sent-otherwise', 'value-read-from-attribute', 'given-value-encoded']
SINGLE_PARAMS = dict(self=SERVER, bearer=BEARER, attribute=ATTR, value=Opt(Bytes), force=Bool)


def nothing_sent(old, ghost):
    return [ghost.sent == old.ghost.sent]


contract(
    'bumble.gatt_server:Server._notify_single_subscriber',
    prop='C12',
    params=SINGLE_PARAMS,
    ghost=SINGLE_GHOST,
    ensures=lambda self, bearer, attribute, value, force, old, ghost: single_post(ATT_HANDLE_VALUE_NTF, 1, self, bearer, attribute, value, force, old, ghost),
    ensures_names=SINGLE_NAMES,
    raises={att.ATT_Error: nothing_sent},
    modifies=['ghost.sent', 'ghost.reads', 'ghost.encoded'],
    inline=PDU_INLINE,
)


def _native_defaultdicts(env):
    import collections

    s = env['self']
    s.indication_semaphores = collections.defaultdict(lambda: asyncio.Semaphore(1))
    s.pending_confirmations = collections.defaultdict(lambda: None)


contract(
    'bumble.gatt_server:Server._indicate_single_bearer',
    prop='C12',
    params=SINGLE_PARAMS,
    ghost=SINGLE_GHOST,
    requires=lambda ghost: [ghost.n0 == len(ghost.sent)],
    ensures=lambda self, bearer, attribute, value, force, old, ghost: single_post(ATT_HANDLE_VALUE_IND, 2, self, bearer, attribute, value, force, old, ghost)
    + [
        # a normal return means the confirmation was awaited (once, after the indication went out)
        ghost.waits == old.ghost.waits + (1 if force or cccd_set(bearer, attribute.handle, 2) else 0),
        self.pending_confirmations.get(bearer) is None,
    ],
    ensures_names=SINGLE_NAMES + ['confirmation-awaited', 'pending-cleared'],
    raises={
        att.ATT_Error: nothing_sent,
        # no confirmation in time: the indication went out once, the wait happened, the slot is free again
        TimeoutError: lambda self, bearer, attribute, old, ghost: [
            len(ghost.sent) == len(old.ghost.sent) + 1,
            ghost.waits == old.ghost.waits + 1,
            self.pending_confirmations.get(bearer) is None,
        ],
    },
    modifies=['ghost.sent', 'ghost.reads', 'ghost.encoded', 'ghost.waits', 'self.indication_semaphores', 'self.pending_confirmations'],
    inline=PDU_INLINE,
    stubs=ASYNCIO_STUBS,
    with_enter=lambda path, cm: None,
    with_exit=lambda path, cm: None,
    native_setup=_native_defaultdicts,
    native_run_for=0.3,
)


# ---------------------------------------------------------------------------
# dispatchers: which routine, for which bearers
# ---------------------------------------------------------------------------
def rec_notify(ghost, bearer, attribute, value, force):
    assert attribute.handle == ghost.h and value == ghost.v and force == ghost.f
    ghost.calls = ghost.calls + [(KIND_NOTIFY, bearer.g_id)]


def rec_indicate(ghost, bearer, attribute, value, force):
    assert attribute.handle == ghost.h and value == ghost.v and force == ghost.f
    ghost.calls = ghost.calls + [(KIND_INDICATE, bearer.g_id)]


def coc_get(ghost, handle, default):
    """le_coc_channels.get(connection handle, {}): 0, 1 or 2 credit-based channels on the connection (bounded)"""
    assert handle == ghost.conn_handle
    if ghost.nch == 0:
        return default
    d = {}
    d[0x40] = ghost.ch0
    if ghost.nch == 2:
        d[0x41] = ghost.ch1
    return d


def subs_items(ghost):
    """Server.subscribers.items(): 0, 1 or 2 bearers with a row (bounded)"""
    out = []
    if ghost.nb >= 1:
        out = out + [(ghost.b0, row_of(ghost.b0))]
    if ghost.nb == 2:
        out = out + [(ghost.b1, row_of(ghost.b1))]
    return out


model('ghost:CocTable', fields={}, methods={'get': Callback('get', effect=coc_get)})
model('ghost:ChannelManager', fields=dict(le_coc_channels=Inst('ghost:CocTable')))
model('ghost:Device#d', fields=dict(l2cap_channel_manager=Inst('ghost:ChannelManager')))
model('ghost:SubsTable#d', fields={}, methods={'items': Callback('items', effect=subs_items)})
model(
    'bumble.gatt_server:Server#d',
    fields=dict(device=Inst('ghost:Device#d'), subscribers=Inst('ghost:SubsTable#d')),
    methods={
        '_notify_single_subscriber': Callback('_notify_single_subscriber', effect=rec_notify, is_async=True),
        '_indicate_single_bearer': Callback('_indicate_single_bearer', effect=rec_indicate, is_async=True),
    },
)
SERVER_D = Inst('bumble.gatt_server:Server#d')
CALLS = ListOf(TupleOf(Int, Int))  # (kind, bearer id)
DISPATCH_GHOST = dict(calls=CALLS, h=Int, v=Bytes, f=Bool, conn_handle=Int, nch=IntRange(0, 2), ch0=CHAN, ch1=CHAN)


def dispatch_pre(bearer, attribute, value, force, ghost):
    return [ghost.h == attribute.handle, ghost.v == value, ghost.f == force, is_enh(bearer) or ghost.conn_handle == bearer.handle]


def expected_for_bearer(kind, bearer, force, ghost):
    """statement: the requested kind of PDU, on the given bearer; for an ACL connection that is
    not forced, on every EATT bearer of that connection as well (each gated by its own CCCD)"""
    out = []
    if not is_enh(bearer) and not force:
        if ghost.nch >= 1 and ghost.ch0.psm == EATT_PSM:
            out = out + [(kind, ghost.ch0.g_id)]
        if ghost.nch == 2 and ghost.ch1.psm == EATT_PSM:
            out = out + [(kind, ghost.ch1.g_id)]
    return out + [(kind, bearer.g_id)]


def _post_for_bearer(kind):
    return lambda self, bearer, attribute, value, force, old, ghost: [ghost.calls == old.ghost.calls + expected_for_bearer(kind, bearer, force, ghost)]


def _post_for_all(kind):
    return lambda self, attribute, value, force, old, ghost: [ghost.calls == old.ghost.calls + expected_for_all(kind, attribute, force, ghost)]


for _name, _kind in (('notify_subscriber', KIND_NOTIFY), ('indicate_subscriber', KIND_INDICATE)):
    contract(
        f'bumble.gatt_server:Server.{_name}',
        prop='C12',
        params=dict(self=SERVER_D, bearer=BEARER, attribute=ATTR, value=Bytes, force=Bool),
        ghost=DISPATCH_GHOST,
        requires=dispatch_pre,
        ensures=_post_for_bearer(_kind),
        ensures_names=['requested-kind-on-exactly-the-bearers'],
        modifies=['ghost.calls'],
        inline=['bumble.att:is_enhanced_bearer'],
        note='bounded: at most 2 credit-based channels on the connection',
    )

ALL_GHOST = dict(calls=CALLS, h=Int, v=Bytes, f=Bool, nb=IntRange(0, 2), b0=CONN, b1=CHAN)


def all_pre(attribute, value, force, ghost):
    return [ghost.h == attribute.handle, ghost.v == value, ghost.f == force, ghost.b0.g_mode >= 1, ghost.b1.g_mode >= 1]


def expected_for_all(kind, attribute, force, ghost):
    """statement: exactly the bearers subscribed to that characteristic (all bearers when forced)"""
    out = []
    if ghost.nb >= 1 and (force or has_entry(ghost.b0, attribute.handle)):
        out = out + [(kind, ghost.b0.g_id)]
    if ghost.nb == 2 and (force or has_entry(ghost.b1, attribute.handle)):
        out = out + [(kind, ghost.b1.g_id)]
    return out


TASK_STUBS = {
    asyncio.create_task: Callback('create_task', effect=lambda ghost, coro: coro),
    asyncio.wait: Callback('wait', effect=lambda ghost, tasks: None, is_async=True),
}

contract(
    'bumble.gatt_server:Server._notify_or_indicate_subscribers',
    prop='C12',
    params=dict(self=SERVER_D, indicate=Bool, attribute=ATTR, value=Bytes, force=Bool),
    ghost=ALL_GHOST,
    requires=all_pre,
    ensures=lambda self, indicate, attribute, value, force, old, ghost: [
        implies(indicate, ghost.calls == old.ghost.calls + expected_for_all(KIND_INDICATE, attribute, force, ghost)),
        implies(not indicate, ghost.calls == old.ghost.calls + expected_for_all(KIND_NOTIFY, attribute, force, ghost)),
    ],
    ensures_names=['indications-to-exactly-the-subscribed', 'notifications-to-exactly-the-subscribed'],
    modifies=['ghost.calls'],
    stubs=TASK_STUBS,
    note='bounded: at most 2 bearers in Server.subscribers',
)

for _name, _kind in (('notify_subscribers', KIND_NOTIFY), ('indicate_subscribers', KIND_INDICATE)):
    contract(
        f'bumble.gatt_server:Server.{_name}',
        prop='C12',
        params=dict(self=SERVER_D, attribute=ATTR, value=Bytes, force=Bool),
        ghost=ALL_GHOST,
        requires=all_pre,
        ensures=_post_for_all(_kind),
        ensures_names=['requested-kind-to-exactly-the-subscribed'],
        modifies=['ghost.calls'],
        inline=['Server._notify_or_indicate_subscribers'],
        stubs=TASK_STUBS,
        note='bounded: at most 2 bearers in Server.subscribers',
    )
