"""C17 part 2 -- PDU parsers above L2CAP on arbitrary bytes: ATT_PDU.from_bytes (every registered opcode and the unknown ones),
the list-parsing constructors (__post_init__ loops on hostile length bytes)."""
import struct

import pyvc.ext_c01  # noqa: F401
import pyvc.ext_c17  # noqa: F401
from bumble import att, core, hci
from pyvc.contracts import (Any, Bool, ByteArray, Bytes, Callback, ConcList, Const, Inst, Int, IntRange, ListOf, OneOf, Opt, Str,
                            TupleOf, at, contract, forall, iff, implies, lemma, model)

PROP = 'C17'
ENVIRONMENT = []
CODEC_INLINE = ['bumble.hci:*', 'bumble.att:*', 'bumble.core:*', 'bumble.utils:*']

# what a malformed ATT PDU can raise out of the parser: a fixed-size field cut short (struct.error / IndexError) or an
# attribute type that is neither 2 nor 16 bytes long (InvalidArgumentError); an empty PDU raises InvalidPacketError
ATT_PARSE_ERRORS = {struct.error: None, IndexError: None, core.InvalidArgumentError: None}
UUID_STUBS = {core.UUID.register: Callback('register', effect=lambda ghost, u: u)}
LOOPS_INV = {
    ('ATT_Find_Information_Response.__post_init__', 0): lambda self, offset: [offset >= 0],
    ('ATT_Find_By_Type_Value_Response.__post_init__', 0): lambda self, offset: [offset >= 0],
    ('ATT_Read_By_Type_Response.__post_init__', 0): lambda self, offset: [offset >= 0],
    ('ATT_Read_By_Group_Type_Response.__post_init__', 0): lambda self, offset: [offset >= 0],
    ('ATT_Read_Multiple_Variable_Response._parse_length_value_tuples', 0): lambda data, offset: [offset >= 0],
}
LOOPS_DEC = {
    ('ATT_Find_Information_Response.__post_init__', 0): lambda self, offset: len(self.information_data) - offset,
    ('ATT_Find_By_Type_Value_Response.__post_init__', 0): lambda self, offset: len(self.handles_information_list) - offset,
    ('ATT_Read_By_Type_Response.__post_init__', 0): lambda self, offset: len(self.attribute_data_list) - offset,
    ('ATT_Read_By_Group_Type_Response.__post_init__', 0): lambda self, offset: len(self.attribute_data_list) - offset,
    ('ATT_Read_Multiple_Variable_Response._parse_length_value_tuples', 0): lambda data, offset: len(data) - offset,
}

for _op, _cls in sorted(att.ATT_PDU.pdu_classes.items(), key=lambda kv: int(kv[0])):
    contract(
        'bumble.att:ATT_PDU.from_bytes',
        key=f'bumble.att:ATT_PDU.from_bytes@{_cls.__name__}',
        prop=PROP,
        params=dict(cls=Const(att.ATT_PDU), pdu=Bytes),
        requires=(lambda op: lambda pdu: [len(pdu) >= 1, pdu[0] == op])(int(_op)),
        ensures=(lambda op: lambda pdu, res: [res.op_code == op, res.payload == pdu[1:]])(int(_op)),
        ensures_names=['op-code', 'payload-kept'],
        raises=ATT_PARSE_ERRORS,
        modifies=[],
        inline=CODEC_INLINE,
        procs=1,
        invariants=LOOPS_INV,
        decreases=LOOPS_DEC,
        loop_locals={('ATT_Read_Multiple_Variable_Response._parse_length_value_tuples', 0): {'length_value_tuple_list': ListOf(TupleOf(Int, Bytes))}},
        stubs=UUID_STUBS,
    )


contract(
    'bumble.att:ATT_PDU.from_bytes',
    key='bumble.att:ATT_PDU.from_bytes@unknown-opcode',
    prop=PROP,
    params=dict(cls=Const(att.ATT_PDU), pdu=Bytes),
    requires=lambda pdu: [len(pdu) >= 1] + [pdu[0] != int(op) for op in att.ATT_PDU.pdu_classes],
    ensures=lambda pdu, res: [res.op_code == pdu[0], res.payload == pdu[1:]],
    ensures_names=['op-code', 'payload-kept'],
    raises={},
    modifies=[],
    inline=CODEC_INLINE,
    procs=1,
    note='an opcode without a class yields a generic ATT_PDU, never an exception',
)
contract(
    'bumble.att:ATT_PDU.from_bytes',
    key='bumble.att:ATT_PDU.from_bytes@empty',
    prop=PROP,
    params=dict(cls=Const(att.ATT_PDU), pdu=Const(b'')),
    ensures=lambda: [False],
    ensures_names=['never-returns'],
    raises={core.InvalidPacketError: None},
    modifies=[],
    inline=CODEC_INLINE,
    procs=1,
)
