"""C17 part 2 -- PDU parsers above L2CAP on arbitrary bytes: ATT_PDU.from_bytes (every registered opcode and the unknown ones),
the list-parsing constructors (__post_init__ loops on hostile length bytes)."""
import struct

import pyvc.ext_c01  # noqa: F401
import pyvc.ext_c17  # noqa: F401
from bumble import att, core, hci
from pyvc.contracts import (Any, Bool, ByteArray, Bytes, Callback, ConcList, Const, Inst, Int, IntRange, ListOf, OneOf, Opt, Str,
                            TupleOf, at, contract, forall, iff, implies, lemma, model)

PROP = 'C17'
ENVIRONMENT = [
    'ATT: the field-spec interpreter (HCI_Object.dict_from_bytes / parse_field) and the PDU constructors run in place on symbolic bytes; UUID.register (a scan of the global UUID registry) is a stub returning the UUID; short integer fields read with int.from_bytes are unconstrained integers of the field width',
    'Device.on_gatt_pdu starts with the connection (the with_connection_from_handle decorator is outside); the GATT client and server behind it are recording stubs (server side: C10/C11; client notification handlers: C12)',
    'Client.on_gatt_pdu: two request kinds pending (Read, Exchange MTU) against seven incoming PDU kinds; the name-based matching for the other request classes is the same code path',
]
CODEC_INLINE = ['bumble.hci:*', 'bumble.att:*', 'bumble.core:*', 'bumble.utils:*']

# what a malformed ATT PDU can raise out of the parser: a fixed-size field cut short (struct.error / IndexError) or an
# attribute type that is neither 2 nor 16 bytes long (InvalidArgumentError); an empty PDU raises InvalidPacketError
ATT_PARSE_ERRORS = {struct.error: None, IndexError: None, core.InvalidArgumentError: None}
UUID_STUBS = {core.UUID.register: Callback('register', effect=lambda ghost, u: u)}
LOOPS_INV = {
    ('ATT_Find_Information_Response.__post_init__', 0): lambda self, offset: [offset >= 0],
    ('ATT_Find_By_Type_Value_Response.__post_init__', 0): lambda self, offset: [offset >= 0],
    ('ATT_Read_By_Type_Response.__post_init__', 0): lambda self, offset: [offset >= 0],
    ('ATT_Read_By_Group_Type_Response.__post_init__', 0): lambda self, offset: [offset >= 0],
    ('ATT_Read_Multiple_Variable_Response._parse_length_value_tuples', 0): lambda data, offset: [offset >= 0],
}
LOOPS_DEC = {
    ('ATT_Find_Information_Response.__post_init__', 0): lambda self, offset: len(self.information_data) - offset,
    ('ATT_Find_By_Type_Value_Response.__post_init__', 0): lambda self, offset: len(self.handles_information_list) - offset,
    ('ATT_Read_By_Type_Response.__post_init__', 0): lambda self, offset: len(self.attribute_data_list) - offset,
    ('ATT_Read_By_Group_Type_Response.__post_init__', 0): lambda self, offset: len(self.attribute_data_list) - offset,
    ('ATT_Read_Multiple_Variable_Response._parse_length_value_tuples', 0): lambda data, offset: len(data) - offset,
}

contract(
    'bumble.att:ATT_PDU.from_bytes',
    key='bumble.att:ATT_PDU.from_bytes@unknown-opcode',
    prop=PROP,
    params=dict(cls=Const(att.ATT_PDU), pdu=Bytes),
    requires=lambda pdu: [len(pdu) >= 1] + [pdu[0] != int(op) for op in att.ATT_PDU.pdu_classes],
    ensures=lambda pdu, res: [res.op_code == pdu[0], res.payload == pdu[1:]],
    ensures_names=['op-code', 'payload-kept'],
    raises={},
    modifies=[],
    inline=CODEC_INLINE,
    procs=1,
    note='an opcode without a class yields a generic ATT_PDU, never an exception',
)
contract(
    'bumble.att:ATT_PDU.from_bytes',
    key='bumble.att:ATT_PDU.from_bytes@empty',
    prop=PROP,
    params=dict(cls=Const(att.ATT_PDU), pdu=Const(b'')),
    ensures=lambda: [False],
    ensures_names=['never-returns'],
    raises={core.InvalidPacketError: None},
    modifies=[],
    inline=CODEC_INLINE,
    procs=1,
)


# the same statement for an arbitrary first byte in ONE entry: this is the callee view used by the boundary functions below
model('bumble.att:ATT_PDU#17', fields=dict(op_code=IntRange(0, 255), name=Str, payload=Bytes))
contract(
    'bumble.att:ATT_PDU.from_bytes',
    key='bumble.att:ATT_PDU.from_bytes@any',
    prop=PROP,
    params=dict(cls=Const(att.ATT_PDU), pdu=Bytes),
    returns=Inst('bumble.att:ATT_PDU#17'),
    ensures=lambda pdu, res: [len(pdu) >= 1, res.op_code == pdu[0], res.payload == pdu[1:]],
    ensures_names=['non-empty', 'op-code', 'payload-kept'],
    raises={**ATT_PARSE_ERRORS, core.InvalidPacketError: lambda pdu: [len(pdu) == 0]},
    modifies=[],
    inline=CODEC_INLINE,
    invariants=LOOPS_INV,
    decreases=LOOPS_DEC,
    loop_locals={('ATT_Read_Multiple_Variable_Response._parse_length_value_tuples', 0): {'length_value_tuple_list': ListOf(TupleOf(Int, Bytes))}},
    stubs=UUID_STUBS,
    note='T+E for every byte string: terminates, raises only struct.error / IndexError / InvalidArgumentError / InvalidPacketError(empty)',
)


# ---------------------------------------------------------------------------
# Device.on_gatt_pdu: the byte-level ATT entry point of a connection (fixed channel 4).  A PDU that does not parse raises
# out of the handler before anything was handed to the client or the server: no half-processed state; the exception ends in
# the transport's try/except (ENVIRONMENT of c17_hostile).  A PDU that parses is handed over exactly once, by opcode parity.
# ---------------------------------------------------------------------------
import asyncio  # noqa: E402

from bumble import device as _device, gatt_client  # noqa: E402


def to_client(ghost, pdu):
    ghost.client_got = ghost.client_got + 1


def to_server(ghost, connection, pdu):
    ghost.server_got = ghost.server_got + 1


model('ghost:GattClient17', fields={}, methods={'on_gatt_pdu': Callback('on_gatt_pdu', effect=to_client)})
model('ghost:GattServer17', fields={}, methods={'on_gatt_pdu': Callback('on_gatt_pdu', effect=to_server)})
model('ghost:Connection17', fields=dict(handle=Int, gatt_client=Opt(Inst('ghost:GattClient17')), gatt_server=Opt(Inst('ghost:GattServer17'))))
model('bumble.device:Device#17', fields={})


def nothing_delivered(old, ghost):
    return [ghost.client_got == old.ghost.client_got, ghost.server_got == old.ghost.server_got]


contract(
    'bumble.device:Device.on_gatt_pdu',
    prop=PROP,
    params=dict(self=Inst('bumble.device:Device#17'), connection=Inst('ghost:Connection17'), pdu=Bytes),
    ghost=dict(client_got=Int, server_got=Int),
    ensures=lambda connection, pdu, old, ghost: [
        len(pdu) >= 1,
        ghost.client_got == old.ghost.client_got + (1 if pdu[0] % 2 == 1 and connection.gatt_client is not None else 0),
        ghost.server_got == old.ghost.server_got + (1 if pdu[0] % 2 == 0 and connection.gatt_server is not None else 0),
    ],
    ensures_names=['non-empty', 'odd-opcode-to-the-client-once', 'even-opcode-to-the-server-once'],
    raises={
        struct.error: lambda old, ghost: nothing_delivered(old, ghost),
        IndexError: lambda old, ghost: nothing_delivered(old, ghost),
        core.InvalidArgumentError: lambda old, ghost: nothing_delivered(old, ghost),
        core.InvalidPacketError: lambda pdu, old, ghost: nothing_delivered(old, ghost) + [len(pdu) == 0],
    },
    modifies=['ghost.client_got', 'ghost.server_got'],
    uses=['bumble.att:ATT_PDU.from_bytes@any'],
    decorators_ok=['with_connection_from_handle'],
    note='the decorator (handle -> connection lookup, ObjectLookupError for an unknown handle) is outside: the contract starts with the connection',
)


# ---------------------------------------------------------------------------
# Client.on_gatt_pdu: the request/response engine of the GATT client.  S: the handler never touches the pending slot
# (pending_request / pending_response are released by send_request's `finally`, on the answer or on GATT_REQUEST_TIMEOUT);
# the waiting coroutine is resolved at most once, and only by an Error Response or the response that matches the request;
# anything else -- unexpected, mismatched, unknown opcode -- is dropped without an exception.
# ---------------------------------------------------------------------------
def fut_set_result(ghost, value):
    if ghost.done:
        raise asyncio.InvalidStateError()
    ghost.done = True
    ghost.results = ghost.results + 1


def note_handler(ghost, pdu):
    ghost.handled = ghost.handled + 1


model('ghost:Future17', fields={}, methods={'set_result': Callback('set_result', effect=fut_set_result, raises=(asyncio.InvalidStateError,))})
model('bumble.att:ATT_PDU#req', fields=dict(name=OneOf('ATT_READ_REQUEST', 'ATT_EXCHANGE_MTU_REQUEST')))
OP = att.Opcode


def pdu_of(op, name):
    i = Inst('bumble.att:ATT_PDU#17', op_code=Const(int(op)))
    i.overrides['name'] = Const(name)  # (`name` is also Inst's own first parameter)
    return i


INCOMING = OneOf(
    pdu_of(OP.ATT_READ_RESPONSE, 'ATT_READ_RESPONSE'),
    pdu_of(OP.ATT_EXCHANGE_MTU_RESPONSE, 'ATT_EXCHANGE_MTU_RESPONSE'),
    pdu_of(OP.ATT_ERROR_RESPONSE, 'ATT_ERROR_RESPONSE'),
    pdu_of(OP.ATT_HANDLE_VALUE_NOTIFICATION, 'ATT_HANDLE_VALUE_NOTIFICATION'),
    pdu_of(OP.ATT_HANDLE_VALUE_INDICATION, 'ATT_HANDLE_VALUE_INDICATION'),
    pdu_of(0x55, 'Opcode[85]'),  # an opcode without a class
    pdu_of(OP.ATT_READ_REQUEST, 'ATT_READ_REQUEST'),  # a request sent to a client
)
model(
    'bumble.gatt_client:Client#17',
    fields=dict(pending_request=Opt(Inst('bumble.att:ATT_PDU#req')), pending_response=Opt(Inst('ghost:Future17')), _bearer_id=Str),
    methods={'on_att_handle_value_notification': Callback('notification', effect=note_handler),
             'on_att_handle_value_indication': Callback('indication', effect=note_handler)},
)


def is_answer(old_self, att_pdu):
    return old_self.pending_request is not None and (
        att_pdu.op_code == int(att.Opcode.ATT_ERROR_RESPONSE)
        or (att_pdu.name == 'ATT_READ_RESPONSE' and old_self.pending_request.name == 'ATT_READ_REQUEST')
        or (att_pdu.name == 'ATT_EXCHANGE_MTU_RESPONSE' and old_self.pending_request.name == 'ATT_EXCHANGE_MTU_REQUEST')
    )


contract(
    'bumble.gatt_client:Client.on_gatt_pdu',
    prop=PROP,
    params=dict(self=Inst('bumble.gatt_client:Client#17'), att_pdu=INCOMING),
    ghost=dict(done=Bool, results=Int, handled=Int),
    # send_request sets and clears both fields together
    requires=lambda self: [(self.pending_request is None) == (self.pending_response is None)],
    ensures=lambda self, att_pdu, old, ghost: [
        ghost.results == old.ghost.results + (1 if is_answer(old.self, att_pdu) else 0),
        implies(is_answer(old.self, att_pdu), not old.ghost.done),
        ghost.handled == old.ghost.handled + (1 if att_pdu.op_code in (int(OP.ATT_HANDLE_VALUE_NOTIFICATION), int(OP.ATT_HANDLE_VALUE_INDICATION)) else 0),
    ],
    ensures_names=['waiter-resolved-iff-answer', 'resolved-once', 'notification-or-indication-handled'],
    raises={asyncio.InvalidStateError: lambda self, att_pdu, old, ghost: [old.ghost.done, is_answer(old.self, att_pdu), ghost.results == old.ghost.results]},
    modifies=['ghost.done', 'ghost.results', 'ghost.handled'],
    fstrings='eval',
    note='S: pending_request / pending_response are in the frame (never modified here); a second answer before the waiter ran raises '
         'InvalidStateError (ordinary, contained by the transport) and changes nothing',
)
