"""C02 — HCI byte streams are re-framed into the same packets under any chunking."""
import asyncio

from bumble import core
from bumble.transport import common
from pyvc.contracts import (Any, Bytes, ByteArray, Bool, Callback, ConcList, Const, Inst, Int, IntRange, OneOf, Opt,
                            contract, iff, implies, lemma, model, at)
from pyvc.replay import Stub
from spec.framing import (body_len, hdr, is_frame, is_frame_k, is_partial, is_partial_k, is_prefix, le_at, len_off,
                          len_size, valid)

ENVIRONMENT = [
    'asyncio transports / libusb callbacks deliver chunks in order (environment, not verified)',
    'list-level conclusion (the emitted *list* is determined by the concatenated stream) is the induction over '
    'lemmas unique_framing / frame_not_prefix_of_partial on paper; each step is a discharged obligation',
]


# ---------------------------------------------------------------------------
# push parser
# ---------------------------------------------------------------------------
# ghost effect of a packet sink: every emitted packet must be a frame; ghost.out is
# the concatenation of everything emitted so far, ghost.n the number of packets
def sink_on_packet(ghost, p):
    assert is_frame(p)
    ghost.out = ghost.out + p
    ghost.n = ghost.n + 1


model('bumble.transport.common:TransportSink', fields={}, methods={'on_packet': Callback('on_packet', effect=sink_on_packet)})
SINK = Inst('bumble.transport.common:TransportSink')

model(
    'bumble.transport.common:PacketParser',
    fields=dict(
        state=Int,
        bytes_needed=Int,
        packet=ByteArray,
        packet_info=OneOf(None, *sorted(set(common.HCI_PACKET_INFO.values()))),
        sink=SINK,
        extended_packet_info=Const({}),
    ),
)
PARSER = Inst('bumble.transport.common:PacketParser')


def info_matches(pi, t):
    return (
        pi is not None
        and pi[0] == len_size(t)
        and pi[1] + 1 == len_off(t)
        and iff(pi[2] == 'H', len_size(t) == 2)
        and (pi[2] == 'H' or pi[2] == 'B')
    )


def wf_parser(self):
    """representation invariant: (state, bytes_needed, packet, packet_info) describe a
    proper prefix of a frame"""
    p = self.packet
    return (
        (self.state == 0 and len(p) == 0 and self.bytes_needed == 1)
        or (
            self.state == 1
            and len(p) >= 1
            and valid(at(p, 0))
            and info_matches(self.packet_info, at(p, 0))
            and self.bytes_needed >= 1
            and len(p) + self.bytes_needed == 1 + hdr(at(p, 0))
        )
        or (
            self.state == 2
            and len(p) >= 1
            and valid(at(p, 0))
            and len(p) >= 1 + hdr(at(p, 0))
            and self.bytes_needed >= 1
            and len(p) + self.bytes_needed == 1 + hdr(at(p, 0)) + body_len(p)
        )
    )


FEED = dict(
    params=dict(self=PARSER, data=Bytes),
    ghost=dict(out=Bytes, n=Int),
    ensures=lambda self, data, old, ghost: [
        wf_parser(self),
        # nothing lost, duplicated, reordered or early: emitted ++ partial == everything fed so far
        old.ghost.out + bytes(old.self.packet) + data == ghost.out + bytes(self.packet),
        ghost.n >= old.ghost.n,
    ],
    ensures_names=['wf', 'stream-preserved', 'count-monotone'],
    raises={
        core.InvalidPacketError: lambda self, data, old, ghost: [
            wf_parser(self),
            self.state == 0,  # later well-formed data is framed from its first byte
            is_prefix(ghost.out, old.ghost.out + bytes(old.self.packet) + data),
        ]
    },
    modifies=['self.state', 'self.bytes_needed', 'self.packet', 'self.packet_info', 'ghost.out', 'ghost.n'],
)

contract(
    'bumble.transport.common:PacketParser.feed_data',
    prop='C02',
    requires=lambda self, data: wf_parser(self),
    invariants={
        0: lambda self, data, data_offset, data_left, old, ghost: [
            wf_parser(self),
            data_left >= 0,
            data_offset >= 0,
            data_offset + data_left == len(data),
            old.ghost.out + bytes(old.self.packet) + data[:data_offset] == ghost.out + bytes(self.packet),
            ghost.n >= old.ghost.n,
        ]
    },
    decreases={0: lambda data_left: data_left},
    inline=['PacketParser.reset'],
    **FEED,
)

# derived contract (precondition strengthened: first chunk of a *new* client)
contract(
    'bumble.transport.common:PacketParser.feed_data',
    key='bumble.transport.common:PacketParser.feed_data@fresh',
    requires=lambda self, data: [wf_parser(self), self.state == 0],
    **FEED,
)

model('bumble.transport.common:StreamPacketSource', fields=dict(parser=PARSER))
SOURCE = Inst('bumble.transport.common:StreamPacketSource')

contract(
    'bumble.transport.common:StreamPacketSource.data_received',
    prop='C02',
    params=dict(self=SOURCE, data=Bytes),
    ghost=dict(out=Bytes, n=Int),
    requires=lambda self, data: wf_parser(self.parser),
    ensures=lambda self, data, old, ghost: [
        wf_parser(self.parser),
        is_prefix(ghost.out, old.ghost.out + bytes(old.self.parser.packet) + data),
    ],
    modifies=['self.parser.state', 'self.parser.bytes_needed', 'self.parser.packet', 'self.parser.packet_info', 'ghost.out', 'ghost.n'],
    uses=['bumble.transport.common:PacketParser.feed_data'],
)


# ---------------------------------------------------------------------------
# pull readers: the source is a ghost stream ghost.S read from cursor ghost.c
# ---------------------------------------------------------------------------
def src_read(ghost, n):
    r = ghost.S[ghost.c : ghost.c + n]
    ghost.c = ghost.c + len(r)
    return r


def src_readexactly(ghost, n):
    if ghost.c + n > len(ghost.S):
        raise asyncio.IncompleteReadError(b'', n)
    r = ghost.S[ghost.c : ghost.c + n]
    ghost.c = ghost.c + n
    return r


model('io:BufferedReader', fields={}, methods={'read': Callback('read', effect=src_read)})
model('asyncio.streams:StreamReader', fields={}, methods={'readexactly': Callback('readexactly', effect=src_readexactly, raises=(asyncio.IncompleteReadError,), is_async=True)})
model('bumble.transport.common:PacketReader', fields=dict(source=Inst('io:BufferedReader'), at_end=Bool))
model('bumble.transport.common:AsyncPacketReader', fields=dict(source=Inst('asyncio.streams:StreamReader')))

contract(
    'bumble.transport.common:PacketReader.next_packet',
    prop='C02',
    params=dict(self=Inst('bumble.transport.common:PacketReader')),
    ghost=dict(S=Bytes, c=Int),
    requires=lambda self, ghost: [0 <= ghost.c, ghost.c <= len(ghost.S)],
    ensures=lambda self, res, old, ghost: [
        (old.ghost.c == len(ghost.S) and self.at_end) if res is None else (is_frame(res) and res == ghost.S[old.ghost.c : ghost.c] and ghost.c == old.ghost.c + len(res)),
        ghost.c <= len(ghost.S),
    ],
    raises={
        # invalid type byte, or the stream ends inside a packet: nothing is returned as a packet
        core.InvalidPacketError: lambda self, old, ghost: [
            not valid(at(ghost.S, old.ghost.c)) or not is_frame(ghost.S[old.ghost.c : ghost.c]) and ghost.c == len(ghost.S)
        ]
    },
    modifies=['self.at_end', 'ghost.c'],
)

contract(
    'bumble.transport.common:AsyncPacketReader.next_packet',
    prop='C02',
    params=dict(self=Inst('bumble.transport.common:AsyncPacketReader')),
    ghost=dict(S=Bytes, c=Int),
    requires=lambda self, ghost: [0 <= ghost.c, ghost.c <= len(ghost.S)],
    ensures=lambda self, res, old, ghost: [
        is_frame(res),
        res == ghost.S[old.ghost.c : ghost.c],
        ghost.c == old.ghost.c + len(res),
        ghost.c <= len(ghost.S),
    ],
    raises={
        core.InvalidPacketError: lambda self, old, ghost: [not valid(at(ghost.S, old.ghost.c))],
        asyncio.IncompleteReadError: lambda self, old, ghost: [ghost.c <= len(ghost.S)],
    },
    modifies=['ghost.c'],
)


# ---------------------------------------------------------------------------
# USB per-endpoint splitter
# ---------------------------------------------------------------------------
def usb_emit(ghost, p):
    assert is_frame_k(p, ghost.lo, ghost.ls)
    ghost.out = ghost.out + p
    ghost.n = ghost.n + 1


model(
    'bumble.transport.usb:PacketSplitter',
    fields=dict(
        emit=Callback('emit', effect=usb_emit),
        packet=Bytes,
        length_offset=IntRange(0, 8),
        length_size=OneOf(1, 2),
        header_size=Int,
    ),
)
SPLITTER = Inst('bumble.transport.usb:PacketSplitter')


def wf_splitter(self, ghost):
    return (
        self.header_size == self.length_offset + self.length_size
        and ghost.lo == self.length_offset
        and ghost.ls == self.length_size
        and is_partial_k(self.packet, self.length_offset, self.length_size)
    )


contract(
    'bumble.transport.usb:PacketSplitter.feed',
    prop='C02',
    params=dict(self=SPLITTER, data=Bytes),
    ghost=dict(out=Bytes, n=Int, lo=Int, ls=Int),
    requires=lambda self, data, ghost: wf_splitter(self, ghost),
    ensures=lambda self, data, old, ghost: [
        wf_splitter(self, ghost),
        old.ghost.out + old.self.packet + data == ghost.out + self.packet,
    ],
    ensures_names=['wf', 'stream-preserved'],
    modifies=['self.packet', 'ghost.out', 'ghost.n'],
    invariants={
        0: lambda self, data, old, ghost: [
            wf_splitter(self, ghost),
            old.ghost.out + old.self.packet + old.data == ghost.out + self.packet + data,
        ]
    },
    decreases={0: lambda data: len(data)},
)

def _splitter_post(lo, ls):
    return lambda self: [self.length_offset == lo, self.length_size == ls, self.header_size == lo + ls, self.packet == b""]


for _cls, _lo, _ls in (('ScoPacketSplitter', 2, 1), ('EventPacketSplitter', 1, 1), ('AclPacketSplitter', 2, 2)):
    # the three endpoint splitters are configured with the HCI header geometry of their
    # packet kind (header without the UART type byte): SCO handle(2)+len(1), event
    # code(1)+len(1), ACL handle(2)+len(2)
    model('bumble.transport.usb:' + _cls, fields={})
    contract(
        f'bumble.transport.usb:{_cls}.__init__',
        prop='C02',
        params=dict(self=Inst('bumble.transport.usb:' + _cls), emit=Callback('emit', effect=usb_emit)),
        ensures=_splitter_post(_lo, _ls),
        modifies=['self.*'],
        inline=['PacketSplitter.__init__'],
    )


# ---------------------------------------------------------------------------
# server transports: a new client's stream is framed from its first byte
# ---------------------------------------------------------------------------
model('asyncio:Transport', fields={}, methods={'get_extra_info': Callback('get_extra_info', returns=Any)})
for _name in (
    'bumble.transport.tcp_server:_open_tcp_server_transport_impl.<locals>.TcpServerProtocol',
    'bumble.transport.unix:open_unix_server_transport.<locals>.UnixServerProtocol',
):
    model(_name + '.sink', fields=dict(transport=Any))
    model(_name, fields=dict(packet_source=SOURCE, packet_sink=Inst(_name + '.sink')))
    contract(
        _name + '.connection_made',
        prop='C02',
        params=dict(self=Inst(_name), transport=Inst('asyncio:Transport')),
        requires=lambda self, transport: wf_parser(self.packet_source.parser),  # whatever the previous client left behind
        ensures=lambda self, transport: [
            wf_parser(self.packet_source.parser),
            self.packet_source.parser.state == 0,
        ],
        ensures_names=['wf', 'framed-from-first-byte'],
        modifies=[
            'self.packet_sink.transport',
            'self.packet_source.parser.state',
            'self.packet_source.parser.bytes_needed',
            'self.packet_source.parser.packet',
            'self.packet_source.parser.packet_info',
        ],
        inline=['PacketParser.reset'],
    )

_WS = 'bumble.transport.ws_server:open_ws_server_transport.<locals>.WsServerTransport'
model('bumble.transport.common:ParserSource', fields=dict(parser=PARSER))
model(_WS, fields=dict(source=Inst('bumble.transport.common:ParserSource'), connection=Any))


class _AIter(Stub):
    def __init__(self, items):
        self.items = list(items)
        self.all = list(items)

    def __getitem__(self, i):
        return self.all[i]

    def __aiter__(self):
        return self

    async def __anext__(self):
        if not self.items:
            raise StopAsyncIteration
        return self.items.pop(0)


def _ws_native(env):
    env['connection'] = _AIter(env['connection'])


contract(
    _WS + '.on_connection',
    prop='C02',
    # the connection delivers one binary frame (the first chunk of the new client's stream)
    params=dict(self=Inst(_WS), connection=ConcList(Bytes, 1)),
    ghost=dict(out=Bytes, n=Int),
    requires=lambda self, connection: wf_parser(self.source.parser),
    ensures=lambda self, connection, old, ghost: [wf_parser(self.source.parser)],
    ensures_names=['wf'],
    raises={core.InvalidPacketError: None},
    modifies=[
        'self.connection',
        'self.source.parser.state',
        'self.source.parser.bytes_needed',
        'self.source.parser.packet',
        'self.source.parser.packet_info',
        'ghost.out',
        'ghost.n',
    ],
    # callee-pre of feed_data@fresh (parser.state == 0 at the first chunk) is the obligation
    uses=['bumble.transport.common:PacketParser.feed_data@fresh'],
    inline=['PacketParser.reset'],
    native_setup=_ws_native,
)


# ---------------------------------------------------------------------------
# lemmas: framing of a stream is unique (all framers find the same boundaries)
# ---------------------------------------------------------------------------
def lemma_unique_framing(s, a, b):
    """two frames that are both prefixes of the same stream are the same frame"""
    assert a == b


lemma(
    'unique_framing',
    lemma_unique_framing,
    prop='C02',
    params=dict(s=Bytes, a=Int, b=Int),
    requires=lambda s, a, b: [0 <= a, a <= len(s), 0 <= b, b <= len(s), is_frame(s[:a]), is_frame(s[:b])],
)


def lemma_frame_not_prefix_of_partial(s, a, b):
    """a framer holding a partial packet s[:b] cannot have missed a frame s[:a] inside it"""
    assert not (is_frame(s[:a]) and is_partial(s[:b]))


lemma(
    'frame_not_prefix_of_partial',
    lemma_frame_not_prefix_of_partial,
    prop='C02',
    params=dict(s=Bytes, a=Int, b=Int),
    requires=lambda s, a, b: [0 <= a, a <= b, b <= len(s)],
)


def lemma_wf_is_partial(self):
    """the push parser's representation invariant says exactly: the buffer is a partial frame"""
    assert is_partial(bytes(self.packet))


lemma('wf_is_partial', lemma_wf_is_partial, prop='C02', params=dict(self=PARSER), requires=lambda self: wf_parser(self))


def lemma_unique_framing_k(s, a, b, lo, ls):
    assert a == b


lemma(
    'unique_framing_usb',
    lemma_unique_framing_k,
    prop='C02',
    params=dict(s=Bytes, a=Int, b=Int, lo=IntRange(0, 8), ls=OneOf(1, 2)),
    requires=lambda s, a, b, lo, ls: [0 <= a, a <= len(s), 0 <= b, b <= len(s), is_frame_k(s[:a], lo, ls), is_frame_k(s[:b], lo, ls)],
)
