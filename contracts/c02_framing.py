"""C02 — HCI byte streams are re-framed into the same packets under any chunking."""
from pyvc.contracts import (Bytes, ByteArray, Callback, Const, Inst, Int, OneOf, Opt, contract, model, iff)
from spec.framing import body_len, hdr, is_frame, is_prefix, len_off, len_size, valid
from bumble import core
from bumble.transport import common


# ghost effect of the sink: every emitted packet must be a frame; ghost.out is the
# concatenation of everything emitted so far, ghost.n the number of packets
def sink_on_packet(ghost, p):
    assert is_frame(p)
    ghost.out = ghost.out + p
    ghost.n = ghost.n + 1


model('bumble.transport.common:TransportSink', fields={}, methods={'on_packet': Callback('on_packet', effect=sink_on_packet)})
SINK = Inst('bumble.transport.common:TransportSink')

model(
    'bumble.transport.common:PacketParser',
    fields=dict(
        state=Int,
        bytes_needed=Int,
        packet=ByteArray,
        packet_info=OneOf(None, *sorted(set(common.HCI_PACKET_INFO.values()))),
        sink=SINK,
        extended_packet_info=Const({}),
    ),
)


def info_matches(pi, t):
    return pi is not None and pi[0] == len_size(t) and pi[1] + 1 == len_off(t) and iff(pi[2] == 'H', len_size(t) == 2) and (pi[2] == 'H' or pi[2] == 'B')


def wf_parser(self):
    p = self.packet
    return (
        (self.state == 0 and len(p) == 0 and self.bytes_needed == 1)
        or (
            self.state == 1
            and len(p) >= 1
            and valid(p[0])
            and info_matches(self.packet_info, p[0])
            and self.bytes_needed >= 1
            and len(p) + self.bytes_needed == 1 + hdr(p[0])
        )
        or (
            self.state == 2
            and len(p) >= 1
            and valid(p[0])
            and len(p) >= 1 + hdr(p[0])
            and self.bytes_needed >= 1
            and len(p) + self.bytes_needed == 1 + hdr(p[0]) + body_len(p)
        )
    )


PARSER = Inst('bumble.transport.common:PacketParser')

contract(
    'bumble.transport.common:PacketParser.feed_data',
    prop='C02',
    params=dict(self=PARSER, data=Bytes),
    ghost=dict(out=Bytes, n=Int),
    requires=lambda self, data: wf_parser(self),
    ensures=lambda self, data, old, ghost: [
        wf_parser(self),
        # nothing lost, duplicated, reordered: emitted ++ partial == everything fed so far
        old.ghost.out + bytes(old.self.packet) + data == ghost.out + bytes(self.packet),
        ghost.n >= old.ghost.n,
    ],
    ensures_names=['wf', 'stream-preserved', 'count-monotone'],
    raises={
        core.InvalidPacketError: lambda self, data, old, ghost: [
            wf_parser(self),
            self.state == 0,
            is_prefix(ghost.out, old.ghost.out + bytes(old.self.packet) + data),
        ]
    },
    modifies=['self.state', 'self.bytes_needed', 'self.packet', 'self.packet_info', 'ghost.out', 'ghost.n'],
    invariants={
        0: lambda self, data, data_offset, data_left, old, ghost: [
            wf_parser(self),
            data_left >= 0,
            data_offset >= 0,
            data_offset + data_left == len(data),
            old.ghost.out + bytes(old.self.packet) + data[:data_offset] == ghost.out + bytes(self.packet),
            ghost.n >= old.ghost.n,
        ]
    },
    decreases={0: lambda data_left: data_left},
    inline=['PacketParser.reset'],
)
