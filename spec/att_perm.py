"""Oracle for C11: attribute permissions (Bluetooth Core Vol 3 Part F 3.2.5 "Attribute permissions",
3.4.1.1 error codes; Part C 10.3 for which error answers which unmet requirement) and the property
statement -- not from bumble's read_value / write_value.

Only the *encoding* of a permission set as an int is bumble's (Attribute.Permissions, an IntFlag):
the bit values are read from the class so that the oracle speaks about the same representation."""
from bumble import att

P = att.Attribute.Permissions
READABLE = int(P.READABLE)
WRITEABLE = int(P.WRITEABLE)
READ_REQUIRES_ENCRYPTION = int(P.READ_REQUIRES_ENCRYPTION)
WRITE_REQUIRES_ENCRYPTION = int(P.WRITE_REQUIRES_ENCRYPTION)
READ_REQUIRES_AUTHENTICATION = int(P.READ_REQUIRES_AUTHENTICATION)
WRITE_REQUIRES_AUTHENTICATION = int(P.WRITE_REQUIRES_AUTHENTICATION)
READ_REQUIRES_AUTHORIZATION = int(P.READ_REQUIRES_AUTHORIZATION)
WRITE_REQUIRES_AUTHORIZATION = int(P.WRITE_REQUIRES_AUTHORIZATION)

# Vol 3 Part F 3.4.1.1, Table 3.4 (error codes)
ERR_INVALID_HANDLE = 0x01
ERR_READ_NOT_PERMITTED = 0x02
ERR_WRITE_NOT_PERMITTED = 0x03
ERR_INSUFFICIENT_AUTHENTICATION = 0x05
ERR_INSUFFICIENT_AUTHORIZATION = 0x08
ERR_ATTRIBUTE_NOT_FOUND = 0x0A
ERR_INVALID_ATTRIBUTE_VALUE_LENGTH = 0x0D
ERR_INSUFFICIENT_ENCRYPTION = 0x0F

# Vol 3 Part F 3.4.8 (opcodes)
ATT_ERROR_RSP = 0x01
ATT_FIND_BY_TYPE_VALUE_RSP = 0x07
ATT_READ_BY_TYPE_RSP = 0x09
ATT_READ_RSP = 0x0B
ATT_READ_BLOB_RSP = 0x0D
ATT_READ_MULTIPLE_RSP = 0x0F
ATT_READ_BY_GROUP_TYPE_RSP = 0x11
ATT_WRITE_RSP = 0x13


def has(permissions, bit):
    """is the (single-bit) flag `bit` in the permission set (exact arithmetic, no bit-vectors)"""
    return (permissions // bit) % 2 == 1


def link_ok_read(permissions, encrypted, authenticated):
    """the link meets the attribute's read encryption / authentication / authorisation requirement.  No
    authorisation is ever granted by the stack (there is no authorisation procedure), so an attribute that
    requires it is never readable by a peer."""
    return (
        (not has(permissions, READ_REQUIRES_ENCRYPTION) or encrypted)
        and (not has(permissions, READ_REQUIRES_AUTHENTICATION) or authenticated)
        and not has(permissions, READ_REQUIRES_AUTHORIZATION)
    )


def link_ok_write(permissions, encrypted, authenticated):
    return (
        (not has(permissions, WRITE_REQUIRES_ENCRYPTION) or encrypted)
        and (not has(permissions, WRITE_REQUIRES_AUTHENTICATION) or authenticated)
        and not has(permissions, WRITE_REQUIRES_AUTHORIZATION)
    )


def may_read(permissions, encrypted, authenticated):
    """statement: a peer can obtain the value only if the attribute is readable and the link meets its read
    encryption / authentication / authorisation requirement"""
    return has(permissions, READABLE) and link_ok_read(permissions, encrypted, authenticated)


def may_write(permissions, encrypted, authenticated):
    return has(permissions, WRITEABLE) and link_ok_write(permissions, encrypted, authenticated)


def no_read_permission_at_all(permissions):
    """none of the read flags is set: neither READABLE nor any read requirement"""
    return not (
        has(permissions, READABLE)
        or has(permissions, READ_REQUIRES_ENCRYPTION)
        or has(permissions, READ_REQUIRES_AUTHENTICATION)
        or has(permissions, READ_REQUIRES_AUTHORIZATION)
    )


def no_write_permission_at_all(permissions):
    return not (
        has(permissions, WRITEABLE)
        or has(permissions, WRITE_REQUIRES_ENCRYPTION)
        or has(permissions, WRITE_REQUIRES_AUTHENTICATION)
        or has(permissions, WRITE_REQUIRES_AUTHORIZATION)
    )


def read_link_refusal_code_ok(code, permissions, encrypted, authenticated):
    """"the corresponding ATT error": the code names one of the link requirements that is actually unmet
    (when several are unmet the specification lets the server pick the order of its checks)"""
    return (
        (code == ERR_INSUFFICIENT_ENCRYPTION and has(permissions, READ_REQUIRES_ENCRYPTION) and not encrypted)
        or (code == ERR_INSUFFICIENT_AUTHENTICATION and has(permissions, READ_REQUIRES_AUTHENTICATION) and not authenticated)
        or (code == ERR_INSUFFICIENT_AUTHORIZATION and has(permissions, READ_REQUIRES_AUTHORIZATION))
    )


def write_link_refusal_code_ok(code, permissions, encrypted, authenticated):
    return (
        (code == ERR_INSUFFICIENT_ENCRYPTION and has(permissions, WRITE_REQUIRES_ENCRYPTION) and not encrypted)
        or (code == ERR_INSUFFICIENT_AUTHENTICATION and has(permissions, WRITE_REQUIRES_AUTHENTICATION) and not authenticated)
        or (code == ERR_INSUFFICIENT_AUTHORIZATION and has(permissions, WRITE_REQUIRES_AUTHORIZATION))
    )


def read_refusal_code_ok(code, permissions, encrypted, authenticated):
    """Read Not Permitted for an attribute that is not readable, else the unmet link requirement"""
    return (code == ERR_READ_NOT_PERMITTED and not has(permissions, READABLE)) or read_link_refusal_code_ok(code, permissions, encrypted, authenticated)


def write_refusal_code_ok(code, permissions, encrypted, authenticated):
    return (code == ERR_WRITE_NOT_PERMITTED and not has(permissions, WRITEABLE)) or write_link_refusal_code_ok(code, permissions, encrypted, authenticated)


def is_permission_error(code):
    return (
        code == ERR_READ_NOT_PERMITTED
        or code == ERR_WRITE_NOT_PERMITTED
        or code == ERR_INSUFFICIENT_ENCRYPTION
        or code == ERR_INSUFFICIENT_AUTHENTICATION
        or code == ERR_INSUFFICIENT_AUTHORIZATION
    )
