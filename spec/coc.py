"""Oracle for LE / enhanced credit-based channels, written from the Bluetooth Core specification
(Vol 3 Part A 3.4 "Connection-oriented channels in LE credit based flow control mode",
3.4.3 "L2CAP SDU Length field", 10.1 "LE credit based flow control mode", 4.24 "L2CAP_FLOW_CONTROL_CREDIT_IND").

K-frames: the first frame of an SDU starts with the 2-octet SDU length; following frames carry
payload only; the SDU is complete when the payload octets received equal the SDU length; every
K-frame costs the sender one credit; the receiver gives credits back with a credit indication that
names *its own* (source) channel endpoint.
"""
from pyvc.contracts import at, ite


def le16(b, off=0):
    return at(b, off) + 256 * at(b, off + 1)


def le16_bytes(n):
    return bytes([n % 256, n // 256])


def sdu_frame(payload):
    """the octets of one SDU on the channel: SDU length, then the information payload"""
    return le16_bytes(len(payload)) + payload


# --- reassembly (receiver) step function -----------------------------------------------------------
# state: buf = octets of the SDU in progress received so far (b'' = none)


def rs_buf(buf, pdu):
    return buf + pdu


def rs_known(b):
    """the SDU length field has been received"""
    return len(b) >= 2


def rs_complete(b):
    return len(b) >= 2 and len(b) == 2 + le16(b)


def rs_overflow(b):
    return len(b) >= 2 and len(b) > 2 + le16(b)


def rs_pending(b):
    return len(b) < 2 or len(b) < 2 + le16(b)


def is_sdu_prefix(b, mtu):
    """b is a proper prefix of the octets of an SDU whose length (once known) is 1..mtu"""
    return len(b) < 2 or (1 <= le16(b) and le16(b) <= mtu and len(b) < 2 + le16(b))


def payload_part(b):
    """payload octets contained in a (prefix of a) framed SDU"""
    return b[2:]


# --- credit ledger (receiver side) -------------------------------------------------------------------


def ledger_ok(credits, max_credits, threshold):
    """the peer can always send one more frame: it holds at least one credit after every frame"""
    return max_credits >= 1 and threshold == max_credits // 2 and threshold < credits and credits <= max_credits
