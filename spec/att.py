"""Attribute Protocol facts used by C10 (Bluetooth Core 5.4, Vol 3 Part F), written from the specification.

3.3.1  Attribute PDU format: opcode octet = bit 7 Authentication Signature Flag, bit 6 Command Flag, bits 5..0 Method.
3.4.8  Attribute opcode summary: every request has exactly one response PDU whose opcode is the request's + 1;
       ATT_ERROR_RSP (0x01) may answer any request and names the request opcode in its first parameter.
3.4.1.1 Error Response: opcode(1) request opcode in error(1) handle in error(2) error code(1) = 5 octets.
3.2.8  ATT_MTU >= 23 (LE default), 3.2.9 maximum attribute value length 512.
"""
ATT_ERROR_RSP = 0x01
ATT_MIN_MTU = 23

# request opcodes of 3.4.8 (method | no command flag | no signature flag)
REQUEST_OPCODES = (0x02, 0x04, 0x06, 0x08, 0x0A, 0x0C, 0x0E, 0x10, 0x12, 0x16, 0x18, 0x20)
ERR_REQUEST_NOT_SUPPORTED = 0x06


def response_opcode(request_opcode):
    return request_opcode + 1


def is_command_opcode(opcode):
    """bit 6 of the opcode octet"""
    return (opcode // 64) % 2 == 1


def answered(opcode, rop, rerr_op):
    """the reply (opcode rop; for an Error Response the request it names is rerr_op) answers the request `opcode`"""
    return rop == response_opcode(opcode) or (rop == ATT_ERROR_RSP and rerr_op == opcode)
