"""Oracle for HCI transport framing (C02), written from the HCI UART transport
layer description (Core Vol 4 Part A) — *not* from bumble's table:

  type 1 command : opcode(2) len(1)            -> header 3, length at offset 3, 1 byte
  type 2 ACL     : handle(2) len(2, LE)        -> header 4, length at offset 3, 2 bytes
  type 3 SCO     : handle(2) len(1)            -> header 3, length at offset 3, 1 byte
  type 4 event   : code(1)   len(1)            -> header 2, length at offset 2, 1 byte
  type 5 ISO     : handle(2) len(2, LE)        -> header 4, length at offset 3, 2 bytes
                   (bumble reads all 16 bits of the ISO length word; so does this oracle)
"""
from pyvc.contracts import at, ite


def valid(t):
    return 1 <= t and t <= 5


def hdr(t):
    """number of header bytes after the type byte"""
    return ite(t == 4, 2, ite(t == 2 or t == 5, 4, 3))


def len_size(t):
    return ite(t == 2 or t == 5, 2, 1)


def len_off(t):
    """offset of the length field from the start of the packet (type byte = 0)"""
    return ite(t == 4, 2, 3)


def body_len(p):
    """announced body length of a packet whose header is complete"""
    off = len_off(at(p, 0))
    return ite(len_size(at(p, 0)) == 2, at(p, off) + 256 * at(p, off + 1), at(p, off))


def is_frame(p):
    return len(p) >= 1 and valid(at(p, 0)) and len(p) >= 1 + hdr(at(p, 0)) and len(p) == 1 + hdr(at(p, 0)) + body_len(p)


def is_partial(p):
    """proper prefix of a frame (or empty): what a framer may hold between chunks"""
    return len(p) == 0 or (valid(at(p, 0)) and (len(p) < 1 + hdr(at(p, 0)) or len(p) < 1 + hdr(at(p, 0)) + body_len(p)))


def is_prefix(a, b):
    return len(a) <= len(b) and a == b[: len(a)]


# --- USB per-endpoint splitter: header of lo+ls bytes, little-endian length at lo
def le_at(p, lo, ls):
    return ite(ls == 2, at(p, lo) + 256 * at(p, lo + 1), at(p, lo))


def is_frame_k(p, lo, ls):
    return len(p) >= lo + ls and len(p) == lo + ls + le_at(p, lo, ls)


def is_partial_k(p, lo, ls):
    return len(p) < lo + ls or len(p) < lo + ls + le_at(p, lo, ls)
