"""Oracle for HCI transport framing (C02), written from the HCI UART transport
layer description (Core Vol 4 Part A) — *not* from bumble's table:

  type 1 command : opcode(2) len(1)            -> header 3, length at offset 3, 1 byte
  type 2 ACL     : handle(2) len(2, LE)        -> header 4, length at offset 3, 2 bytes
  type 3 SCO     : handle(2) len(1)            -> header 3, length at offset 3, 1 byte
  type 4 event   : code(1)   len(1)            -> header 2, length at offset 2, 1 byte
  type 5 ISO     : handle(2) len(2, LE)        -> header 4, length at offset 3, 2 bytes
                   (bumble reads all 16 bits of the ISO length word; so does this oracle)
"""
from pyvc.contracts import ite


def valid(t):
    return 1 <= t and t <= 5


def hdr(t):
    """number of header bytes after the type byte"""
    return ite(t == 4, 2, ite(t == 2 or t == 5, 4, 3))


def len_size(t):
    return ite(t == 2 or t == 5, 2, 1)


def len_off(t):
    """offset of the length field from the start of the packet (type byte = 0)"""
    return ite(t == 4, 2, 3)


def body_len(p):
    """announced body length of a packet whose header is complete"""
    off = len_off(p[0])
    return ite(len_size(p[0]) == 2, p[off] + 256 * p[off + 1], p[off])


def is_frame(p):
    return len(p) >= 1 and valid(p[0]) and len(p) >= 1 + hdr(p[0]) and len(p) == 1 + hdr(p[0]) + body_len(p)


def is_prefix(a, b):
    return len(a) <= len(b) and a == b[: len(a)]
