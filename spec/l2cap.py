"""Oracles for ACL fragmentation / L2CAP basic header (C05)."""
from pyvc.contracts import at, ite


def le16(b, off=0):
    return at(b, off) + 256 * at(b, off + 1)


def is_l2cap_frame(b):
    """complete basic L2CAP frame: 2-byte LE payload length, 2-byte CID, payload"""
    return len(b) >= 4 and len(b) == 4 + le16(b)


def l2cap_frame(cid, payload):
    """the bytes of the basic L2CAP frame (Core Vol 3 Part A 3.1)"""
    n = len(payload)
    return bytes([n % 256, n // 256, cid % 256, cid // 256]) + payload
