"""Oracles for the HCI packet envelopes, written from Bluetooth Core Vol 4 Part E section 5.4 (not from the code).

All multi-octet header fields are little-endian.
"""


def le16_bytes(x):
    return bytes([x % 256, x // 256])


def le32_bytes(x):
    return bytes([x % 256, (x // 256) % 256, (x // 65536) % 256, x // 16777216])


def command_packet(op_code, parameters):
    """5.4.1: packet type 0x01, OpCode (OCF bits 0-9, OGF bits 10-15), Parameter_Total_Length (1 octet), parameters"""
    return bytes([0x01]) + le16_bytes(op_code) + bytes([len(parameters)]) + parameters


def event_packet(event_code, parameters):
    """5.4.4: packet type 0x04, Event_Code, Parameter_Total_Length (1 octet), parameters"""
    return bytes([0x04, event_code, len(parameters)]) + parameters


def le_meta_event_packet(subevent_code, parameters):
    """7.7.65: event code 0x3E, the first parameter is the Subevent_Code"""
    return event_packet(0x3E, bytes([subevent_code]) + parameters)


def command_complete_packet(num_hci_command_packets, command_opcode, return_parameters):
    """7.7.14: event code 0x0E, Num_HCI_Command_Packets, Command_Opcode, Return_Parameters"""
    return event_packet(0x0E, bytes([num_hci_command_packets]) + le16_bytes(command_opcode) + return_parameters)


def acl_packet(handle, pb, bc, data):
    """5.4.2: packet type 0x02, Handle bits 0-11, PB flag bits 12-13, BC flag bits 14-15, Data_Total_Length (2 octets)"""
    return bytes([0x02]) + le16_bytes(handle + 4096 * pb + 16384 * bc) + le16_bytes(len(data)) + data


def sco_packet(handle, status, data):
    """5.4.3: packet type 0x03, Connection_Handle bits 0-11, Packet_Status_Flag bits 12-13, RFU bits 14-15,
    Data_Total_Length (1 octet)"""
    return bytes([0x03]) + le16_bytes(handle + 4096 * status) + bytes([len(data)]) + data


def iso_header(handle, pb, ts, data_total_length):
    """5.4.5: packet type 0x05, Connection_Handle bits 0-11, PB_Flag bits 12-13, TS_Flag bit 14, RFU bit 15,
    ISO_Data_Load_Length bits 0-13 (+ 2 RFU bits)"""
    return bytes([0x05]) + le16_bytes(handle + 4096 * pb + 16384 * ts) + le16_bytes(data_total_length)


def iso_sdu_info(packet_sequence_number, iso_sdu_length, packet_status_flag):
    """5.4.5: Packet_Sequence_Number (2 octets), ISO_SDU_Length bits 0-11, RFU bits 12-13, Packet_Status_Flag bits 14-15"""
    return le16_bytes(packet_sequence_number) + le16_bytes(iso_sdu_length + 16384 * packet_status_flag)
