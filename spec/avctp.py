"""Oracle for AVCTP packets, written from the AVCTP specification (AVCTP 1.4, 6.1 "Packet format",
figures 6.1-6.3) -- not from bumble:

  octet 0 of every packet : transaction label (bits 7-4), packet type (bits 3-2), C/R (bit 1), IPID (bit 0)
  packet type 00 single   : octets 1-2 profile identifier (big endian); message from octet 3          (header 3)
  packet type 01 start    : octet 1 number of AVCTP packets of the message (start included, > 1),
                            octets 2-3 profile identifier; message fragment from octet 4                (header 4)
  packet type 10 continue : message fragment from octet 1                                              (header 1)
  packet type 11 end      : message fragment from octet 1                                              (header 1)
  the profile identifier is carried by the single / start packet only; C/R 0 = command, 1 = response;
  IPID is meaningful in responses only (a command with IPID set is invalid)
"""
from pyvc.contracts import at, ite

SINGLE = 0
START = 1
CONTINUE = 2
END = 3


def label_of(pdu):
    return at(pdu, 0) // 16


def ptype_of(pdu):
    return (at(pdu, 0) // 4) % 4


def cr_of(pdu):
    return (at(pdu, 0) // 2) % 2


def ipid_of(pdu):
    return at(pdu, 0) % 2


def header_octet(label, ptype, c_r, ipid):
    return label * 16 + ptype * 4 + c_r * 2 + ipid


def header_len(ptype):
    return ite(ptype == SINGLE, 3, ite(ptype == START, 4, 1))


def be16(pdu, off):
    return at(pdu, off) * 256 + at(pdu, off + 1)


def single_packet(label, c_r, ipid, pid, message):
    return bytes([header_octet(label, SINGLE, c_r, ipid), pid // 256, pid % 256]) + message


def start_packet(label, c_r, ipid, pid, count, fragment):
    return bytes([header_octet(label, START, c_r, ipid), count, pid // 256, pid % 256]) + fragment


def continue_packet(label, c_r, ipid, fragment):
    return bytes([header_octet(label, CONTINUE, c_r, ipid)]) + fragment


def end_packet(label, c_r, ipid, fragment):
    return bytes([header_octet(label, END, c_r, ipid)]) + fragment
