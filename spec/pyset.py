"""A Python `set` over a fixed two-element universe, one boolean per possible member (model of the built-in for the
verifier, which has no mutable sets): the methods below are executed from their ASTs like code.  Semantics as in
CPython: add / discard are idempotent, discard of a non-member is a no-op, remove of a non-member raises KeyError, the
truth value is "non-empty" (through __len__).  Adding a value outside the universe is refused (NotImplementedError
escapes -> a failing obligation), never ignored."""


class FlagSet2:
    A = None
    B = None

    def add(self, x):
        if x == self.A:
            self.has_a = True
        elif x == self.B:
            self.has_b = True
        else:
            raise NotImplementedError('member outside the modelled universe')

    def discard(self, x):
        if x == self.A:
            self.has_a = False
        elif x == self.B:
            self.has_b = False

    def remove(self, x):
        if x == self.A and self.has_a:
            self.has_a = False
        elif x == self.B and self.has_b:
            self.has_b = False
        else:
            raise KeyError(x)

    def __contains__(self, x):
        return (x == self.A and self.has_a) or (x == self.B and self.has_b)

    def __len__(self):
        return (1 if self.has_a else 0) + (1 if self.has_b else 0)
