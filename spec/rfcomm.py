"""RFCOMM multiplexer control messages, written from TS 07.10 (5.4.6.3) / RFCOMM 1.2 (5.5.3, 6.5)."""

FT_SABM = 0x2F
FT_UA = 0x63
FT_DM = 0x0F
FT_DISC = 0x43
FT_UIH = 0xEF

MCC_PN = 0x20  # TS 07.10 5.4.6.3.1: type 0b100000
MCC_MSC = 0x38  # TS 07.10 5.4.6.3.7: type 0b000111 (transmitted LSB first: 0x38 in bumble's numbering)


def mcc(mcc_type, c_r, value):
    """type octet (EA=1, C/R, 6-bit type), one length octet (EA=1), value"""
    return bytes([(mcc_type << 2 | c_r << 1 | 1) & 0xFF, (len(value) << 1 | 1) & 0xFF]) + value


def msc_value(dlci):
    """MSC: address octet (EA=1, 1, DLCI) and the V.24 signals octet with RTC, RTR, DV set, no flow control"""
    return bytes([dlci * 4 + 3, 0x8D])


def pn_value(dlci, cl, priority, max_frame_size, initial_credits):
    """PN (RFCOMM 5.5.3): DLCI, CL/frame type, priority, ack timer 0, N1 little-endian, NA 0, K (3 bits)"""
    return bytes([dlci, cl, priority, 0, max_frame_size % 256, max_frame_size // 256, 0, initial_credits % 8])
