"""Oracle functions for C12, written from the Bluetooth Core Specification (Vol 3 Part F: ATT,
Part G: GATT) and the property statement -- not from bumble."""
import struct

# Vol 3 Part F 3.4.8 (opcode summary)
ATT_ERROR_RSP = 0x01
ATT_READ_RSP = 0x0B
ATT_READ_BLOB_RSP = 0x0D
ATT_HANDLE_VALUE_NTF = 0x1B
ATT_HANDLE_VALUE_IND = 0x1D

# Vol 3 Part F 3.4.1.1 (error codes)
ERR_INVALID_HANDLE = 0x01
ERR_INVALID_OFFSET = 0x07
ERR_ATTRIBUTE_NOT_FOUND = 0x0A
ERR_ATTRIBUTE_NOT_LONG = 0x0B

KIND_NOTIFY = 0
KIND_INDICATE = 1


def handle_value_pdu(opcode, handle, value):
    """Vol 3 Part F 3.4.7.1 / 3.4.7.2: opcode(1) | attribute handle (2, little endian) | value"""
    return bytes([opcode]) + struct.pack('<H', handle) + value


def truncated(value, att_mtu):
    """3.4.7.1: the value part of a notification/indication is at most ATT_MTU-3 octets, and
    (statement) is the first ATT_MTU-3 octets of the attribute value, otherwise unchanged"""
    return value[: att_mtu - 3]


def cccd_bit(cccd, bit):
    """Vol 3 Part G 3.3.3.3: the Client Characteristic Configuration is a 2-octet bit field,
    bit 0 = Notification, bit 1 = Indication (both live in the first, least significant, octet).
    `cccd` is None when the client never wrote the descriptor (default value 0)."""
    return cccd is not None and len(cccd) == 2 and (cccd[0] // bit) % 2 == 1


def long_value_part(value, offset, att_mtu):
    """Vol 3 Part F 3.4.4.4 / 3.4.4.6: a Read (offset 0) / Read Blob response carries the part of the
    value starting at the offset, at most ATT_MTU-1 octets"""
    return value[offset : offset + att_mtu - 1]
