"""Oracle for the SDP data element header (C18), written from the Bluetooth Core specification
Vol 3 Part B 3.1-3.3 — not from bumble's code:

  header byte: type descriptor in the 5 most significant bits, size index in the 3 least significant bits
  size index 0: 1 byte (0 bytes for the Nil type)     1: 2 bytes   2: 4 bytes   3: 8 bytes   4: 16 bytes
             5: the size is in the next 8 bits        6: in the next 16 bits   7: in the next 32 bits (big-endian)
  the data follows the size bytes

Types: 0 Nil, 1 unsigned int, 2 signed int (two's complement), 3 UUID, 4 text string, 5 boolean,
6 sequence, 7 alternative, 8 URL.  Integers and sizes are big-endian.
"""
from pyvc.contracts import at, ite

NIL, UINT, SINT, UUID, TEXT, BOOL, SEQ, ALT, URL = 0, 1, 2, 3, 4, 5, 6, 7, 8


def de_type(data, off):
    return at(data, off) // 8


def de_size_index(data, off):
    return at(data, off) % 8


def de_header_len(data, off):
    """number of bytes before the data: descriptor byte + explicit size bytes"""
    si = de_size_index(data, off)
    if si == 5:
        return 2
    if si == 6:
        return 3
    if si == 7:
        return 5
    return 1


def de_value_size(data, off):
    # (written with `if` rather than a nested conditional expression: under the verifier each use follows the case
    # the path is in, which keeps the proof goals small)
    si = de_size_index(data, off)
    if si == 0:
        return 0 if de_type(data, off) == NIL else 1
    if si == 1:
        return 2
    if si == 2:
        return 4
    if si == 3:
        return 8
    if si == 4:
        return 16
    if si == 5:
        return at(data, off + 1)
    if si == 6:
        return at(data, off + 1) * 256 + at(data, off + 2)
    return at(data, off + 1) * 16777216 + at(data, off + 2) * 65536 + at(data, off + 3) * 256 + at(data, off + 4)


def de_end(data, off):
    """offset just after the data element that starts at off"""
    return off + de_header_len(data, off) + de_value_size(data, off)


def var_header(type_code, size):
    """header of a variable-size element (text, sequence, alternative, URL) of `size` data bytes: the shortest of the
    three explicit-size forms (what a serialiser must pick so that 255/256 and 65535/65536 land on different forms)"""
    return ite(
        size <= 0xFF,
        bytes([type_code * 8 + 5, size % 256]),
        ite(
            size <= 0xFFFF,
            bytes([type_code * 8 + 6, (size // 256) % 256, size % 256]),
            bytes([type_code * 8 + 7, (size // 16777216) % 256, (size // 65536) % 256, (size // 256) % 256, size % 256]),
        ),
    )


def be_uint(data, off, n):
    """unsigned big-endian integer in the n bytes at off (n in 1, 2, 4, 8: the integer widths bumble represents)"""
    if n == 1:
        return at(data, off)
    if n == 2:
        return at(data, off) * 256 + at(data, off + 1)
    if n == 4:
        return at(data, off) * 16777216 + at(data, off + 1) * 65536 + at(data, off + 2) * 256 + at(data, off + 3)
    return (
        at(data, off) * 72057594037927936
        + at(data, off + 1) * 281474976710656
        + at(data, off + 2) * 1099511627776
        + at(data, off + 3) * 4294967296
        + at(data, off + 4) * 16777216
        + at(data, off + 5) * 65536
        + at(data, off + 6) * 256
        + at(data, off + 7)
    )


def be_sint(data, off, n):
    """two's complement big-endian integer in the n bytes at off"""
    u = be_uint(data, off, n)
    if n == 1:
        return u - 256 if u >= 128 else u
    if n == 2:
        return u - 65536 if u >= 32768 else u
    if n == 4:
        return u - 4294967296 if u >= 2147483648 else u
    return u - 18446744073709551616 if u >= 9223372036854775808 else u
