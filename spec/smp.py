"""Oracle for the Security Manager's choice of the key generation method (C13), written from the
Bluetooth Core Specification Vol 3 Part H (Security Manager) 2.3.5.1 "Selecting key generation method",
Tables 2.6, 2.7 and 2.8, and 3.5.1 (Pairing Request fields) -- not from bumble.

Nothing here reads bumble's Session.PAIRING_METHODS; the table below is a transcription of Table 2.8 in
the specification's own layout (one row per *responder* capability, one column per *initiator*
capability, legacy and Secure Connections entries side by side), in a different shape from bumble's
(initiator-major, nested tuples), so that a transcription error on either side shows as a difference.
"""

# --- 3.5.1, Table 3.4: IO capability values
DISPLAY_ONLY = 0x00
DISPLAY_YES_NO = 0x01
KEYBOARD_ONLY = 0x02
NO_INPUT_NO_OUTPUT = 0x03
KEYBOARD_DISPLAY = 0x04
IO_CAPABILITIES = (DISPLAY_ONLY, DISPLAY_YES_NO, KEYBOARD_ONLY, NO_INPUT_NO_OUTPUT, KEYBOARD_DISPLAY)

# --- 3.5.1, Figure 3.3: AuthReq bit field
AUTHREQ_BONDING = 0x01  # bits 0-1 (Bonding_Flags; 01 = bonding)
AUTHREQ_MITM = 0x04  # bit 2
AUTHREQ_SC = 0x08  # bit 3
AUTHREQ_KEYPRESS = 0x10  # bit 4
AUTHREQ_CT2 = 0x20  # bit 5

# --- key generation methods (association models), 2.3.5.1; the numbering is this file's own
JUST_WORKS = 'just-works'  # unauthenticated
PASSKEY_ENTRY = 'passkey-entry'  # authenticated
NUMERIC_COMPARISON = 'numeric-comparison'  # authenticated, LE Secure Connections only
OUT_OF_BAND = 'oob'  # authenticated
AUTHENTICATED_METHODS = (PASSKEY_ENTRY, NUMERIC_COMPARISON, OUT_OF_BAND)  # 2.3.5.1: these give MITM protection

# who shows the 6-digit passkey and who types it (Table 2.8 cell texts)
INIT_DISPLAYS = 'initiator displays, responder inputs'
RESP_DISPLAYS = 'responder displays, initiator inputs'
BOTH_INPUT = 'initiator and responder input'

_JW = (JUST_WORKS, None)
_PK_I = (PASSKEY_ENTRY, INIT_DISPLAYS)
_PK_R = (PASSKEY_ENTRY, RESP_DISPLAYS)
_PK_B = (PASSKEY_ENTRY, BOTH_INPUT)
_NC = (NUMERIC_COMPARISON, None)


def _both(cell):
    return (cell, cell)


# Table 2.8: Mapping of IO capabilities to key generation method.
# TABLE_2_8[responder][initiator] = (LE legacy pairing entry, LE Secure Connections entry)
TABLE_2_8 = {
    #                    initiator: DisplayOnly   DisplayYesNo      KeyboardOnly  NoInputNoOutput KeyboardDisplay
    DISPLAY_ONLY: {
        DISPLAY_ONLY: _both(_JW),
        DISPLAY_YES_NO: _both(_JW),
        KEYBOARD_ONLY: _both(_PK_R),
        NO_INPUT_NO_OUTPUT: _both(_JW),
        KEYBOARD_DISPLAY: _both(_PK_R),
    },
    DISPLAY_YES_NO: {
        DISPLAY_ONLY: _both(_JW),
        DISPLAY_YES_NO: (_JW, _NC),  # "Just Works (For LE Legacy Pairing) / Numeric Comparison (For LE Secure Connections)"
        KEYBOARD_ONLY: _both(_PK_R),
        NO_INPUT_NO_OUTPUT: _both(_JW),
        KEYBOARD_DISPLAY: (_PK_R, _NC),
    },
    KEYBOARD_ONLY: {
        DISPLAY_ONLY: _both(_PK_I),
        DISPLAY_YES_NO: _both(_PK_I),
        KEYBOARD_ONLY: _both(_PK_B),
        NO_INPUT_NO_OUTPUT: _both(_JW),
        KEYBOARD_DISPLAY: _both(_PK_I),
    },
    NO_INPUT_NO_OUTPUT: {
        DISPLAY_ONLY: _both(_JW),
        DISPLAY_YES_NO: _both(_JW),
        KEYBOARD_ONLY: _both(_JW),
        NO_INPUT_NO_OUTPUT: _both(_JW),
        KEYBOARD_DISPLAY: _both(_JW),
    },
    KEYBOARD_DISPLAY: {
        DISPLAY_ONLY: _both(_PK_I),
        DISPLAY_YES_NO: (_PK_I, _NC),
        KEYBOARD_ONLY: _both(_PK_R),
        NO_INPUT_NO_OUTPUT: _both(_JW),
        KEYBOARD_DISPLAY: (_PK_I, _NC),
    },
}


def use_io_capabilities(initiator_mitm, responder_mitm):
    """Tables 2.6 (LE legacy) and 2.7 (LE Secure Connections), the part without OOB data: when neither
    device has set the MITM flag the IO capabilities are ignored and Just Works is used; when either has,
    the IO capabilities select the method ("Use IO Capabilities")."""
    return initiator_mitm or responder_mitm


def use_oob(secure_connections, initiator_oob_flag, responder_oob_flag):
    """Table 2.6: in LE legacy pairing OOB is used when *both* devices have set the OOB data flag;
    Table 2.7: in LE Secure Connections when *at least one* has."""
    if secure_connections:
        return initiator_oob_flag or responder_oob_flag
    return initiator_oob_flag and responder_oob_flag


def table_2_8(initiator_io, responder_io, secure_connections):
    """the cell of Table 2.8 for this pair of capabilities: (method, who displays / inputs or None)"""
    return TABLE_2_8[responder_io][initiator_io][1 if secure_connections else 0]


def key_generation_method(initiator_io, responder_io, secure_connections, initiator_mitm, responder_mitm):
    """2.3.5.1 without OOB data on either side: the method both devices shall use"""
    if not use_io_capabilities(initiator_mitm, responder_mitm):
        return JUST_WORKS
    return table_2_8(initiator_io, responder_io, secure_connections)[0]


def passkey_roles(initiator_io, responder_io, secure_connections):
    """for a Passkey Entry cell: (initiator displays, responder displays); the device that does not
    display inputs.  Never both display; both input only for KeyboardOnly x KeyboardOnly."""
    who = table_2_8(initiator_io, responder_io, secure_connections)[1]
    return (who == INIT_DISPLAYS, who == RESP_DISPLAYS)


# ---------------------------------------------------------------------------
# a second, structural reading of the same table (2.3.5.1 prose + Table 2.8 caption), used as a
# cross-check of the transcription above: what each capability can do
# ---------------------------------------------------------------------------
def can_display(io):
    return io in (DISPLAY_ONLY, DISPLAY_YES_NO, KEYBOARD_DISPLAY)


def can_type(io):
    return io in (KEYBOARD_ONLY, KEYBOARD_DISPLAY)


def can_confirm(io):
    """yes/no input: DisplayYesNo has it; a keyboard can also answer yes/no (Table 2.4)"""
    return io in (DISPLAY_YES_NO, KEYBOARD_DISPLAY)


def table_2_8_structural(initiator_io, responder_io, secure_connections):
    """Table 2.8 derived from what the capabilities can do:
    * NoInputNoOutput on either side -> Just Works;
    * Secure Connections and both sides can display and confirm -> Numeric Comparison;
    * nobody has a keyboard -> Just Works;
    * otherwise Passkey Entry: two bare keyboards both input; if only one side has a keyboard it inputs and the
      other displays; if both have one (at least one KeyboardDisplay) the initiator displays when it can,
      else the responder does."""
    if initiator_io == NO_INPUT_NO_OUTPUT or responder_io == NO_INPUT_NO_OUTPUT:
        return _JW
    if secure_connections and can_confirm(initiator_io) and can_confirm(responder_io):
        return _NC
    if not can_type(initiator_io) and not can_type(responder_io):
        return _JW
    if initiator_io == KEYBOARD_ONLY and responder_io == KEYBOARD_ONLY:
        return _PK_B
    if can_type(responder_io) and not can_type(initiator_io):
        return _PK_I
    if can_type(initiator_io) and not can_type(responder_io):
        return _PK_R
    # both have keyboards, at least one KeyboardDisplay
    if initiator_io == KEYBOARD_ONLY:
        return _PK_R  # only the responder can display
    return _PK_I  # the initiator can display (KeyboardDisplay): it displays, the responder inputs
