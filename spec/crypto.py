"""Oracle for the Security Manager cryptographic toolbox (C14), written from the Bluetooth Core
specification Vol 3 Part H 2.2 and RFC 4493 — in the specification's own *most-significant-octet
first* notation (`||` is concatenation with the most significant part on the left).

The two primitives are uninterpreted:
  AES(k, d)   FIPS-197 AES-128 encryption of one 16-byte block under the 16-byte key k
  CMAC(k, m)  AES-CMAC (RFC 4493) of the message m under key k; `cmac_rfc` below is its definition
              in terms of AES for a message of concrete length
so everything proved against this file holds for any back end whose `e`/`aes_cmac` are these functions.

bumble passes every value as a little-endian byte string; `rev` converts between the two notations.
"""
from pyvc.contracts import at, ite, ufb
from pyvc.ext_c14 import recursive


def AES(k, d):
    return ufb('aes128', 16, k, d)


def CMAC(k, m):
    return ufb('aes_cmac', 16, k, m)


def rev(b):
    return b[::-1]


def bxor(a, b):
    return bytes(x ^ y for x, y in zip(a, b))


# --- 2.2.1 security function e (arguments and result most significant octet first)
def e_be(key, plaintext):
    return AES(key, plaintext)


# --- 2.2.2 ah(k, r) = e(k, r') mod 2^24, r' = padding || r (104 zero bits, then the 24-bit r)
def ah_be(k, r):
    return e_be(k, bytes(13) + r)[13:16]


# --- 2.2.3 c1: p1 = pres || preq || rat' || iat', p2 = padding(32) || ia || ra
def c1_be(k, r, preq, pres, iat, rat, ia, ra):
    p1 = pres + preq + bytes([rat]) + bytes([iat])
    p2 = bytes(4) + ia + ra
    return e_be(k, bxor(e_be(k, bxor(r, p1)), p2))


# --- 2.2.4 s1: r' = r1' || r2' with r1', r2' the least significant 64 bits of r1, r2
def s1_be(k, r1, r2):
    return e_be(k, r1[8:16] + r2[8:16])


# --- 2.2.6 f4(U, V, X, Z) = AES-CMAC_X(U || V || Z)
def f4_be(u, v, x, z):
    return CMAC(x, u + v + z)


# --- 2.2.7 f5: T = AES-CMAC_SALT(W); MacKey / LTK = AES-CMAC_T(Counter || keyID || N1 || N2 || A1 || A2 || Length)
SALT_F5 = bytes.fromhex('6C888391AAF5A53860370BDB5A6083BE')
KEY_ID_BTLE = bytes.fromhex('62746c65')
LENGTH_256 = bytes.fromhex('0100')


def f5_be(w, n1, n2, a1, a2):
    t = CMAC(SALT_F5, w)
    mac_key = CMAC(t, bytes([0]) + KEY_ID_BTLE + n1 + n2 + a1 + a2 + LENGTH_256)
    ltk = CMAC(t, bytes([1]) + KEY_ID_BTLE + n1 + n2 + a1 + a2 + LENGTH_256)
    return (mac_key, ltk)


# --- 2.2.8 f6(W, N1, N2, R, IOcap, A1, A2) = AES-CMAC_W(N1 || N2 || R || IOcap || A1 || A2)
def f6_be(w, n1, n2, r, io_cap, a1, a2):
    return CMAC(w, n1 + n2 + r + io_cap + a1 + a2)


# --- 2.2.9 g2(U, V, X, Y) = AES-CMAC_X(U || V || Y) mod 2^32
def g2_be(u, v, x, y):
    m = CMAC(x, u + v + y)
    return ((at(m, 12) * 256 + at(m, 13)) * 256 + at(m, 14)) * 256 + at(m, 15)


# --- 2.2.10 h6(W, keyID) = AES-CMAC_W(keyID);  2.2.11 h7(SALT, W) = AES-CMAC_SALT(W)
def h6_be(w, key_id):
    return CMAC(w, key_id)


def h7_be(salt, w):
    return CMAC(salt, w)


# --- RFC 4493: sub-key generation and the MAC of a message of concrete length
def shift_spec(b, c):
    """(b << 1) on a 128-bit string, byte by byte, with the constant c XORed into the last byte"""
    return bytes([(2 * at(b, j)) % 256 + at(b, j + 1) // 128 for j in range(15)] + [((2 * at(b, 15)) % 256) ^ c])


def dbl(b):
    """RFC 4493 2.3 step 2/3: (b << 1) if MSB(b) == 0 else (b << 1) XOR const_Rb, on 128-bit strings"""
    if at(b, 0) & 0x80:  # MSB(b) = 1
        r = shift_spec(b, 0x87)
    else:
        r = shift_spec(b, 0)
    return r


def cmac_rfc(k, m):
    L = AES(k, bytes(16))
    k1 = dbl(L)
    k2 = dbl(k1)
    n = (len(m) + 15) // 16
    if n == 0:
        n = 1
        complete = False
    else:
        complete = len(m) % 16 == 0
    last = m[16 * (n - 1) :]
    if complete:
        m_last = bxor(last, k1)
    else:
        m_last = bxor(last + b'\x80' + bytes(15 - len(last)), k2)
    x = bytes(16)
    for i in range(n - 1):
        x = AES(k, bxor(x, m[16 * i : 16 * i + 16]))
    return AES(k, bxor(m_last, x))


# --- RFC 4493 2.4 for a message of *any* length.  Step 6's loop
#         for i := 1 to n-1 do  Y := X XOR M_i;  X := AES-128(K, Y)
#     is the recursively defined function cbc_chain(k, X0, M_1 || ... || M_j) = X after j blocks:
#         cbc_chain(k, iv, "")        = iv
#         cbc_chain(k, iv, p || M_j)  = AES-128(k, cbc_chain(k, iv, p) XOR M_j)        (|M_j| = 16)
#     (p is a whole number of blocks wherever the function is used).
def _cbc_stop(k, iv, p):
    return len(p) < 16


def _cbc_base(k, iv, p):
    return iv


def _cbc_step(k, iv, p, rec):
    return AES(k, bxor(rec(k, iv, p[: len(p) - 16]), p[len(p) - 16 :]))


def _cbc_measure(k, iv, p):
    return len(p)


cbc_chain = recursive('cbc_chain', 16, _cbc_stop, _cbc_base, _cbc_step, _cbc_measure)


def cmac_rfc_any(k, m):
    """AES-CMAC(k, m) of RFC 4493 2.4 for a message of any length (steps 1-7)"""
    L = AES(k, bytes(16))  # step 1: sub-keys
    k1 = dbl(L)
    k2 = dbl(k1)
    r = len(m) % 16
    if len(m) > 0 and r == 0:
        # steps 2-4: n = len/16, flag = true: the last block is complete, M_last = M_n XOR K1
        body = m[: len(m) - 16]
        m_last = bxor(m[len(m) - 16 :], k1)
    else:
        # n = ceil(len/16) (1 for the empty message), flag = false: M_last = padding(M_n) XOR K2
        body = m[: len(m) - r]
        m_last = bxor(m[len(m) - r :] + b'\x80' + bytes(15 - r), k2)
    x = cbc_chain(k, bytes(16), body)  # steps 5-6: X after the first n-1 blocks
    return AES(k, bxor(m_last, x))  # step 6-7: Y := M_last XOR X; T := AES-128(K, Y)


# --- P-256 (FIPS 186-4 D.1.2.3): y^2 = x^3 - 3x + b (mod p)
P256_P = 0xFFFFFFFF00000001000000000000000000000000FFFFFFFFFFFFFFFFFFFFFFFF
P256_A = P256_P - 3
P256_B = 0x5AC635D8AA3A93E7B3EBBD55769886BC651D06B0CC53B0F63BCE3C3E27D2604B


def on_p256(x, y):
    """(x, y) satisfies the curve equation over GF(p).  Coordinates are taken modulo p: an encoding with
    x >= p or y >= p (possible in 32 bytes) names the reduced point, which is how both back ends treat it."""
    return (y * y - (x * x * x + P256_A * x + P256_B)) % P256_P == 0
