"""Oracles for L2CAP Enhanced Retransmission Mode, written from the Bluetooth Core specification
(Vol 3 Part A): 3.3.2 enhanced control field, 3.3.3 SDU length, 3.3.5 FCS, 7.? segmentation (SAR), 8.6 ERTM.

    I-frame control (16 bit, little endian): bit0 = 0, TxSeq bits 1-6, F bit 7, ReqSeq bits 8-13, SAR bits 14-15
    S-frame control:                         bit0 = 1, S bits 2-3, P bit 4, F bit 7, ReqSeq bits 8-13
    SAR: 00 unsegmented, 01 start (followed by the 2-byte SDU length), 10 end, 11 continuation
    sequence numbers are modulo 64; the transmit window is 1..63
"""
from pyvc.contracts import at, forall, iff, implies, ite
from pyvc.ext_c08 import subseq

SEQ = 64
UNSEG, START, END, CONT = 0, 1, 2, 3
RR, REJ, RNR, SREJ = 0, 1, 2, 3


def le16(b, off=0):
    return at(b, off) + 256 * at(b, off + 1)


def le16_bytes(n):
    return bytes([n % 256, n // 256])


# -- control fields ------------------------------------------------------------------------------------------
def iframe_ctrl(tx_seq, req_seq, sar, final):
    return bytes([tx_seq * 2 + final * 128, req_seq + sar * 64])


def sframe_ctrl(sf, poll, req_seq, final):
    return bytes([1 + sf * 4 + poll * 16 + final * 128, req_seq])


def is_iframe(b):
    return len(b) >= 2 and at(b, 0) % 2 == 0


def is_sframe(b):
    return len(b) >= 2 and at(b, 0) % 2 == 1


def f_tx_seq(b):
    return (at(b, 0) // 2) % 64


def f_final(b):
    return at(b, 0) // 128


def f_req_seq(b):
    return at(b, 1) % 64


def f_sar(b):
    return at(b, 1) // 64


def f_sfunc(b):
    return (at(b, 0) // 4) % 4


def f_poll(b):
    return (at(b, 0) // 16) % 2


# -- segmentation --------------------------------------------------------------------------------------------
def nseg(n, mps):
    """number of I-frames that carry an SDU of n bytes when the peer accepts mps payload bytes per frame"""
    return ite(n <= mps, 1, (n + mps - 1) // mps)


def seg_sar(j, k):
    return ite(k == 1, UNSEG, ite(j == 0, START, ite(j == k - 1, END, CONT)))


def seg_payload(sdu, mps, j):
    return sdu[j * mps : (j + 1) * mps]


def seg_sdu_length(sdu, k):
    return ite(k == 1, 0, len(sdu))


def iframe(tx_seq, req_seq, sar, final, sdu_length, payload):
    """the information payload of the L2CAP frame for one I-frame: control, SDU length on a start frame, data"""
    return iframe_ctrl(tx_seq, req_seq, sar, final) + ite(sar == START, le16_bytes(sdu_length), b'') + payload


def iframe_data(b):
    """the SDU bytes an I-frame carries"""
    return ite(f_sar(b) == START, b[4:], b[2:])


# -- FCS (3.3.5): CRC-16 over header and payload, polynomial x^16 + x^15 + x^2 + 1, LSB first, initial value 0 -------
def l2cap_header(length, cid):
    return bytes([length % 256, length // 256, cid % 256, cid // 256])


# -- segmentation of one SDU (8.? / 3.3.2 SAR): stated without multiplication ---------------------------------------
def segmentation(n_sdu, sdu, mps, off, pay, sar, ln):
    """`off/pay/sar/ln` (lists of equal length k >= 1) describe the I-frames that carry the SDU when at most mps bytes
    of it fit in one frame: an SDU of at most mps bytes travels unsegmented; otherwise segment j starts at offset
    off[j] = j * mps (given as off[0] = 0, off[j] = off[j-1] + mps), carries the next mps bytes (the rest in the last
    one), the first is a START frame announcing the SDU length, the one that reaches the end of the SDU is the END
    frame, the others are CONTINUATION frames"""
    k = len(off)
    return [
        k >= 1 and len(pay) == k and len(sar) == k and len(ln) == k,
        off[0] == 0,
        forall(1, k, lambda j: off[j] == off[j - 1] + mps),
        forall(0, k, lambda j: off[j] >= 0),
        forall(0, k, lambda j: off[j] < n_sdu or j == 0),
        off[k - 1] + mps >= n_sdu,
        iff(k == 1, n_sdu <= mps),
        forall(0, k, lambda j: pay[j] == subseq(sdu, off[j], mps)),
        forall(0, k, lambda j: sar[j] == ite(k == 1, UNSEG, ite(j == 0, START, ite(off[j] + mps >= n_sdu, END, CONT)))),
        forall(0, k, lambda j: ln[j] == ite(k == 1, 0, n_sdu)),
    ]

