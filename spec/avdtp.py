"""Oracle for AVDTP signalling fragmentation, written from the AVDTP specification
(AVDTP 1.3, 8.4 "Signalling message format", 8.4.1-8.4.4) -- not from bumble:

  octet 0 of every packet : transaction label (bits 7-4), packet type (bits 3-2), message type (bits 1-0)
  packet type 00 single   : octet 1 = RFA(2) | signal identifier(6); message from octet 2
  packet type 01 start    : octet 1 = NOSP (number of signal packets of the message, start included),
                            octet 2 = RFA(2) | signal identifier(6); message fragment from octet 3
                            -- bumble (both directions) puts the signal identifier in octet 1 and NOSP in
                               octet 2; the two ends of this property are both bumble, so the oracle follows
                               the order bumble's *sender* uses and the lemma states agreement of the two ends
  packet type 10 continue : message fragment from octet 1
  packet type 11 end      : message fragment from octet 1
  a message is complete when the end packet arrives as packet number NOSP
"""
from pyvc.contracts import at, ite

SINGLE = 0
START = 1
CONTINUE = 2
END = 3


def label_of(pdu):
    return at(pdu, 0) // 16


def ptype_of(pdu):
    return (at(pdu, 0) // 4) % 4


def mtype_of(pdu):
    return at(pdu, 0) % 4


def header_byte(label, ptype, mtype):
    return label * 16 + ptype * 4 + mtype


def too_short(pdu):
    """packet that cannot carry the header its packet type announces"""
    t = ptype_of(pdu)
    return len(pdu) == 0 or ((t == SINGLE or t == START) and len(pdu) < 2) or (t == START and len(pdu) < 3)


def packets_needed(n, mtu):
    """number of packets of a message of n bytes for peer MTU mtu >= 4: one single packet (2 header bytes)
    if it fits, else fragments of at most mtu-3 message bytes (start header 3 bytes)"""
    return ite(n + 2 <= mtu, 1, (n + mtu - 4) // (mtu - 3))
