#!/bin/bash
# tools/reseed.sh <name>...: re-evaluate already stored seeded changes (seeded/<name>) against the current checks
cd "$(dirname "$0")/.."
for n in "$@"; do
  rm -rf /work/src-$n; cp -r seeded/$n /work/src-$n
  PYVC_PROCS=${PYVC_PROCS:-8} .venv/bin/python tools/seed_eval.py ${n%-*} /work/src-$n $n ${SEED_ARGS:-} 2>&1 | grep -E '"detected"|check_exit|tests_pass|obligation' | head -8
  rm -rf /work/src-$n
done
