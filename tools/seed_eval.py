#!/usr/bin/env python3
"""tools/seed_eval.py <PROP> <src_dir> <name> [--skip-tests]

Confirm a seeded property-breaking change and run the property's check against it.
src_dir holds patch.diff, demo.py (or test_demo.py) and meta.json as produced by an independent agent.
Everything runs in a scratch git worktree of /repo (removed afterwards); /repo itself is not touched.
Result: /verif/seeded/<name>/{patch.diff, demo.py, meta.json} with what was run and observed.
"""
import json
import os
import shutil
import subprocess
import sys
import time

HERE = os.path.dirname(os.path.dirname(os.path.abspath(__file__)))


def sh(cmd, cwd=None, env=None, timeout=3600):
    e = dict(os.environ)
    e.update(env or {})
    p = subprocess.run(cmd, shell=True, cwd=cwd, env=e, capture_output=True, text=True, timeout=timeout)
    return p.returncode, (p.stdout + p.stderr)


def main():
    prop, src, name = sys.argv[1:4]
    skip_tests = '--skip-tests' in sys.argv
    tree = f'/work/r-seed-{name}'
    sh(f'git -C /repo worktree remove --force {tree}')
    rc, out = sh(f'git -C /repo worktree add --detach {tree} HEAD')
    assert rc == 0, out
    ran = []
    res = {'property': prop, 'name': name}
    try:
        demo = 'demo.py' if os.path.exists(os.path.join(src, 'demo.py')) else 'test_demo.py'
        demo_cmd = f'/venv/bin/python {os.path.join(src, demo)}' if demo == 'demo.py' else f'/venv/bin/python -m pytest -q -p no:cacheprovider {os.path.join(src, demo)}'
        env = {'PYTHONPATH': tree}
        rc0, o0 = sh(demo_cmd, cwd=tree, env=env, timeout=600)
        ran.append(f'demo on unmodified tree: exit {rc0}')
        rc, out = sh(f'git apply {os.path.join(src, "patch.diff")}', cwd=tree)
        if rc != 0:
            # /repo moved on since the change was written (fix: commits): three-way apply keeps the change's own hunks
            rc, out = sh(f'git apply --3way {os.path.join(src, "patch.diff")}', cwd=tree)
            ran.append('patch applied with --3way (the tree moved on since the change was written)')
        assert rc == 0, 'patch does not apply: ' + out
        rc1, o1 = sh(demo_cmd, cwd=tree, env=env, timeout=600)
        ran.append(f'demo with the change: exit {rc1}')
        res['demo_ok_without'] = rc0 == 0
        res['demo_fails_with'] = rc1 != 0
        if not skip_tests:
            rct, ot = sh('/venv/bin/python -m pytest -q -p no:cacheprovider --timeout=900 tests/ 2>&1 | tail -3', cwd=tree, env=env, timeout=3000)
            ran.append('test suite with the change: ' + ot.strip().splitlines()[-1])
            res['tests_pass_with'] = ' passed' in ot and ' failed' not in ot and ' error' not in ot.lower().replace('errors=0', '')
        t0 = time.time()
        rcc, oc = sh(f'./check {prop} --no-evidence', cwd=HERE, env={'VERIF_REPO': tree, 'PYVC_PROCS': os.environ.get('PYVC_PROCS', '8')}, timeout=3000)
        lines = [l for l in oc.splitlines() if l.startswith(('VIOLATION', '    obligation', 'UNDECIDED', 'CHECKER-ERROR', 'KNOWN-FINDING', prop + ':'))]
        ran.append(f'VERIF_REPO=<scratch tree with the change> ./check {prop} --no-evidence: exit {rcc} ({time.time() - t0:.0f}s)')
        res['check_exit'] = rcc
        res['check_lines'] = lines[:30]
        res['detected'] = rcc == 1
    finally:
        sh(f'git -C /repo worktree remove --force {tree}')
    dst = os.path.join(HERE, 'seeded', name)
    os.makedirs(dst, exist_ok=True)
    shutil.copy(os.path.join(src, 'patch.diff'), os.path.join(dst, 'patch.diff'))
    shutil.copy(os.path.join(src, demo), os.path.join(dst, demo))
    meta = {}
    try:
        meta = json.load(open(os.path.join(src, 'meta.json')))
    except Exception:  # noqa: BLE001
        pass
    meta.update({'property': prop, 'breaks': prop, 'confirmed_by_coordinator': res, 'coordinator_ran': ran})
    json.dump(meta, open(os.path.join(dst, 'meta.json'), 'w'), indent=1)
    print(json.dumps(res, indent=1))


if __name__ == '__main__':
    main()
