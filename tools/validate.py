#!/usr/bin/env python3
"""tools/validate.py: MANIFEST.json and every claimed evidence file against the schemas in /root/.vp"""
import json, os, sys
import jsonschema
HERE = os.path.dirname(os.path.dirname(os.path.abspath(__file__)))
m = json.load(open(os.path.join(HERE, 'MANIFEST.json')))
jsonschema.validate(m, json.load(open('/root/.vp/MANIFEST.schema.json')))
ids = [json.loads(l)['id'] for l in open(os.path.join(HERE, 'properties.jsonl'))]
claimed = [c['property_id'] for c in m['checks']]
na = [n['property_id'] for n in m['not_applicable']]
assert sorted(claimed + na) == sorted(ids), (set(ids) - set(claimed + na), set(claimed) & set(na))
es = json.load(open('/root/.vp/EVIDENCE.schema.json'))
for c in m['checks']:
    p = os.path.join(HERE, c['evidence_file'])
    if os.path.exists(p):
        jsonschema.validate(json.load(open(p)), es)
    else:
        print('missing evidence', c['evidence_file'])
print('ok: claimed', claimed)
