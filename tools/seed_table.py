#!/usr/bin/env python3
"""tools/seed_table.py: markdown table of the seeded changes and what catches them (from seeded/*/meta.json)"""
import glob, json, os
HERE = os.path.dirname(os.path.dirname(os.path.abspath(__file__)))
rows = []
for d in sorted(glob.glob(os.path.join(HERE, 'seeded', 'C*-*'))):
    n = os.path.basename(d)
    try:
        m = json.load(open(os.path.join(d, 'meta.json')))
    except Exception:
        continue
    c = m.get('confirmed_by_coordinator', {})
    ob = [l.strip().replace('obligation ', '') for l in c.get('check_lines', []) if l.strip().startswith('obligation')]
    ob = [o.split('/', 1)[1] if '/' in o else o for o in ob]
    what = ' '.join(str(m.get('summary', '')).split())
    if len(what) > 150:
        what = what[:147] + '...'
    if c.get('detected'):
        caught = '`' + '`, `'.join(ob[:2]) + '`' + (' (+%d more)' % (len(ob) - 2) if len(ob) > 2 else '')
    else:
        caught = '**not caught** (check exit %s)' % c.get('check_exit')
    rows.append(f'| {n} | {what} | {caught} |')
print('| seeded change | what it does | caught by (quick check exits 1 with) |')
print('|---|---|---|')
print('\n'.join(rows))
det = sum('not caught' not in r for r in rows)
print(f'\n{det} of {len(rows)} seeded changes are caught.')
