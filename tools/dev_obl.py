"""developer helper: verify one contract/lemma in-process and list slow / undecided / refuted obligation instances
usage: PYTHONPATH=.:/repo .venv/bin/python tools/dev_obl.py C08 <key substring> [name substring] [--dump DIR] [--t ms]"""
import os, sys, time
sys.setrecursionlimit(20000)
from pyvc import contracts as C, run, solve, vcgen
import z3

prop, sub = sys.argv[1], sys.argv[2]
namesub = sys.argv[3] if len(sys.argv) > 3 and not sys.argv[3].startswith('--') else ''
dump = sys.argv[sys.argv.index('--dump') + 1] if '--dump' in sys.argv else None
tmo = int(sys.argv[sys.argv.index('--t') + 1]) if '--t' in sys.argv else 8000
run.load_contracts(prop)
tops = [t for t in C.REG.by_prop.get(prop, []) if sub in run.top_key(t)]
top = tops[0]
t0 = time.time()
res = run._big_frame(vcgen.verify, C.REG, top, 'quick')
print(f'{run.top_key(top)}: paths={res.paths} obligations={len(res.obligations)} gen={time.time()-t0:.1f}s undecided={res.undecided}')
for k, ob in enumerate(res.obligations):
    if namesub and namesub not in ob.name:
        continue
    if ob.kind == 'xcheck':
        continue
    r = solve.discharge(ob, tmo)
    if r['status'] not in ('proved',) or r.get('time', 0) > 1.5:
        print(f"  [{k}] {ob.name} @{ob.loc} dec={ob.info.get('decisions')} -> {r['status']} {r.get('backend')} {r.get('time',0):.1f}s {r.get('detail','')[:150]}")
        if dump:
            os.makedirs(dump, exist_ok=True)
            s = z3.Solver()
            for p in ob.pc:
                s.add(p)
            if not ob.expect_sat:
                s.add(z3.Not(ob.goal))
            open(os.path.join(dump, f'ob{k}.smt2'), 'w').write(s.to_smt2())
