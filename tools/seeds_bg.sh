#!/bin/bash
# tools/seeds_bg.sh <ID>: evaluate seeded/_pending/<ID>-* in a snapshot worktree of /verif HEAD (so that merges in /verif do not disturb it);
# results land in /work/seedres/<ID>-k (copy to seeded/ with tools/seeds_collect.sh)
id=$1
snap=/work/snap-$id
git -C /verif worktree remove --force $snap 2>/dev/null
git -C /verif worktree add -q --detach $snap HEAD || exit 1
ln -s /verif/.venv $snap/.venv
mkdir -p /work/seedres
cd $snap
for d in seeded/_pending/$id-*; do
  [ -d "$d" ] || continue
  n=$(basename $d)
  PYVC_PROCS=${PYVC_PROCS:-6} .venv/bin/python tools/seed_eval.py $id $snap/$d $n > /work/seedres/$n.log 2>&1
  rm -rf /work/seedres/$n; cp -r seeded/$n /work/seedres/$n
done
cd /; git -C /verif worktree remove --force $snap
echo done > /work/seedres/$id.done
