#!/usr/bin/env python3
"""tools/claim.py <ID> <text-file>: add/replace a check entry in MANIFEST.json.
text-file has three paragraphs separated by blank lines: level text, level_note, technique."""
import json, sys
pid, fn = sys.argv[1], sys.argv[2]
text, note, tech = [p.strip().replace('\n', ' ') for p in open(fn).read().strip().split('\n\n')][:3]
m = json.load(open('MANIFEST.json'))
m['checks'] = [c for c in m['checks'] if c['property_id'] != pid]
m['checks'].append({"property_id": pid, "quick_cmd": f"./check {pid} --tier quick", "thorough_cmd": f"./check {pid} --tier thorough",
  "evidence_file": f"evidence/{pid}.json", "replay_cmd_template": f"./check {pid} --replay {{path}}", "engine": "pyvc",
  "level_claimed": {"category": "proof", "text": text, "design_ref": f"DESIGN.md section 2 {pid}"}, "level_note": note, "technique": tech})
m['checks'].sort(key=lambda c: c['property_id'])
m['not_applicable'] = [n for n in m['not_applicable'] if n['property_id'] != pid]
for e in m['engines']:
    if pid not in e['serves_properties']:
        e['serves_properties'].append(pid); e['serves_properties'].sort()
json.dump(m, open('MANIFEST.json', 'w'), indent=1)
print('claimed', pid)
