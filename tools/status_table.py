#!/usr/bin/env python3
"""tools/status_table.py: markdown status table per property from evidence/*.json, known_findings.txt and seeded/*/meta.json"""
import glob, json, os, re
HERE = os.path.dirname(os.path.dirname(os.path.abspath(__file__)))
m = json.load(open(os.path.join(HERE, 'MANIFEST.json')))
claimed = {c['property_id'] for c in m['checks']}
titles = {json.loads(l)['id']: json.loads(l)['title'] for l in open(os.path.join(HERE, 'properties.jsonl'))}
kf = open(os.path.join(HERE, 'known_findings.txt')).read().splitlines()
print('| id | property | entries under contract | obligations discharged | quick wall (s) | cross-check held/samples | repo fixes | known findings | seeded changes caught |')
print('|---|---|---|---|---|---|---|---|---|')
for pid in sorted(titles):
    if pid not in claimed:
        print(f'| {pid} | {titles[pid]} | not claimed | | | | | | |')
        continue
    ev = json.load(open(os.path.join(HERE, 'evidence', pid + '.json')))
    c = ev['coverage']
    fixes = sum(1 for l in kf if l.startswith(f'fixed: property={pid} '))
    finds = sum(1 for l in kf if l.startswith(f'finding: property={pid} '))
    seeds = []
    for d in sorted(glob.glob(os.path.join(HERE, 'seeded', pid + '-*'))):
        try:
            seeds.append(bool(json.load(open(os.path.join(d, 'meta.json'))).get('confirmed_by_coordinator', {}).get('detected')))
        except Exception:
            pass
    xc = c.get('cross_check', {})
    print(f"| {pid} | {titles[pid]} | {len(c.get('functions_under_contract', []))} | {c['discharged']} | {ev['wall_s']:.0f} | {xc.get('held', 0)}/{xc.get('samples', 0)} | {fixes} | {finds} | {sum(seeds)}/{len(seeds)} |")
