#!/bin/bash
# tools/mut_prep.sh <ID>: scratch worktree /tmp/mut-<ID> of /repo and /tmp/mut-<ID>-out/property.json for an independent mutant-writing agent
id=$1
git -C /repo worktree add -q --detach /tmp/mut-$id HEAD
mkdir -p /tmp/mut-$id-out
python3 - "$id" <<'PY'
import json, sys
for l in open('/verif/properties.jsonl'):
    d = json.loads(l)
    if d['id'] == sys.argv[1]:
        json.dump(d, open(f'/tmp/mut-{d["id"]}-out/property.json', 'w'), indent=1)
PY
