#!/bin/bash
# tools/integrate.sh <ID>: after the branch is merged and repo fixes are committed: claim, run the check, update the lock,
# evaluate pending seeded changes of that property (seeded/_pending/<ID>-k -> seeded/<ID>-k)
set -u
cd "$(dirname "$0")/.."
id=$1
python3 tools/claim.py $id claims/$id.txt || exit 1
PYVC_PROCS=${PYVC_PROCS:-8} ./check $id --tier quick --update-lock 2>&1 | grep -E "^$id:|cross-check|UNDEC|VIOL|ERROR|KNOWN" 
for d in seeded/_pending/$id-*; do
  [ -d "$d" ] || continue
  n=$(basename $d)
  PYVC_PROCS=${PYVC_PROCS:-8} .venv/bin/python tools/seed_eval.py $id $(pwd)/$d $n 2>&1 | grep -E '"detected"|check_exit|demo_|tests_pass|obligation|AssertionError' | head -12
  if [ -f seeded/$n/meta.json ]; then git rm -rq --cached $d 2>/dev/null; rm -rf $d; fi
done
.venv/bin/python tools/validate.py
