#!/bin/bash
# tools/seeds_collect.sh <ID>: move results of tools/seeds_bg.sh into seeded/ and drop the pending copies
cd "$(dirname "$0")/.."
id=$1
for d in /work/seedres/$id-*; do
  [ -d "$d" ] || continue
  n=$(basename $d)
  rm -rf seeded/$n; cp -r $d seeded/$n; rm -rf seeded/_pending/$n
  python3 - "$n" <<'PY'
import json, sys
m = json.load(open(f'seeded/{sys.argv[1]}/meta.json'))
c = m.get('confirmed_by_coordinator', {})
ob = [l.strip().replace('obligation ', '') for l in c.get('check_lines', []) if l.strip().startswith('obligation')]
print(sys.argv[1], 'demo_ok_without', c.get('demo_ok_without'), 'fails_with', c.get('demo_fails_with'), 'tests', c.get('tests_pass_with'), 'exit', c.get('check_exit'), 'detected', c.get('detected'), ob[:3])
PY
done
